package main

// C09 — Socket.IO encoding round-trips, matches v5, leaves its input intact.

import (
	"fmt"
	"go/constant"
	"go/token"
	"go/types"
	"reflect"
	"sort"
	"strings"

	"golang.org/x/tools/go/ssa"
)

func init() {
	register(&PropertySpec{
		ID:         "C09",
		NotDecided: "round-trip equality for all values, and the value-dependent event-name pre-scan (an event name ending in a backslash is rejected — F28, found by reading, out of static reach); decided are: Encode is effect-free on its argument (reflect-setter taint), header field order and conditions agree between writer and reader, the packet-type table equals protocol v5, and placeholder keys / index base agree.",
		Run:        runC09,
	})
}

// ---- reflect taint: does a reflect.Value derive from the function's inputs?

var reflectNav = map[string]bool{"Elem": true, "Index": true, "Field": true, "FieldByName": true, "MapIndex": true, "Value": true, "Key": true, "Addr": true, "Slice": true, "Convert": true, "Interface": true}

// derivesFromInput: v (a reflect.Value, or an iterator) is reached from a
// parameter / captured variable through navigation methods only.  Values made
// by reflect.New / reflect.MakeSlice / reflect.ValueOf(fresh) are fresh.
func derivesFromInput(v ssa.Value, seen map[ssa.Value]bool) bool {
	if seen[v] {
		return false
	}
	seen[v] = true
	switch x := v.(type) {
	case *ssa.Parameter:
		return true
	case *ssa.FreeVar:
		return true
	case *ssa.UnOp:
		if x.Op == token.MUL {
			switch a := x.X.(type) {
			case *ssa.FreeVar:
				return true
			case *ssa.Alloc:
				// a local variable: tainted if any value stored to it is
				if a.Referrers() != nil {
					for _, r := range *a.Referrers() {
						if st, ok := r.(*ssa.Store); ok && st.Addr == ssa.Value(a) && derivesFromInput(st.Val, seen) {
							return true
						}
					}
				}
				return false
			}
		}
		return derivesFromInput(x.X, seen)
	case *ssa.Phi:
		for _, e := range x.Edges {
			if derivesFromInput(e, seen) {
				return true
			}
		}
		return false
	case *ssa.Extract:
		return derivesFromInput(x.Tuple, seen)
	case *ssa.Call:
		cc := &x.Call
		if f := cc.StaticCallee(); f != nil {
			full := f.String()
			switch {
			case full == "reflect.New" || full == "reflect.MakeSlice" || full == "reflect.MakeMap" || full == "reflect.Zero" || full == "reflect.MakeMapWithSize":
				return false
			case full == "reflect.ValueOf" || full == "reflect.Indirect":
				return derivesFromInput(cc.Args[0], seen)
			case strings.HasPrefix(full, "(reflect.Value).") || strings.HasPrefix(full, "(*reflect.MapIter)."):
				if reflectNav[f.Name()] || f.Name() == "MapRange" || f.Name() == "Next" {
					return derivesFromInput(cc.Args[0], seen)
				}
				return false
			}
		}
		return false
	case *ssa.MakeInterface:
		return derivesFromInput(x.X, seen)
	case *ssa.ChangeInterface:
		return derivesFromInput(x.X, seen)
	case *ssa.TypeAssert:
		return derivesFromInput(x.X, seen)
	}
	return false
}

// encodeReach: functions of package jsonparser statically reachable from Encode.
func encodeReach(p *Program) []*ssa.Function {
	start := p.Fn("jsonparser", "Parser.Encode")
	seen := map[*ssa.Function]bool{}
	var order []*ssa.Function
	var visit func(f *ssa.Function)
	visit = func(f *ssa.Function) {
		if f == nil || seen[f] || f.Blocks == nil {
			return
		}
		seen[f] = true
		order = append(order, f)
		for _, a := range f.AnonFuncs {
			visit(a)
		}
		for _, cs := range Calls(f) {
			if sc := cs.Common().StaticCallee(); sc != nil && p.inModule(sc) {
				visit(originOf(sc))
			}
		}
	}
	visit(start)
	return order
}

// encodePurity implements C09-D1 (also used by C08-D6).
func encodePurity(c *Ctx, rule string) {
	p := c.P
	fns := encodeReach(p)
	nSet := 0
	for _, fn := range fns {
		for _, cs := range Calls(fn) {
			f := cs.Common().StaticCallee()
			if f == nil || !strings.HasPrefix(f.String(), "(reflect.Value).Set") {
				continue
			}
			nSet++
			recv := cs.Common().Args[0]
			tainted := derivesFromInput(recv, map[ssa.Value]bool{})
			c.Ob(rule, FuncName(fn)+"#"+stripAmp(Term(recv))+"."+f.Name(), cs.Pos(), !tainted, "Encode reaches "+f.Name()+" on "+stripAmp(Term(recv))+", a reflect.Value that is part of the caller's argument: encoding replaces the caller's Binary leaves by placeholder JSON in place — emitting the same value again sends the placeholder as the attachment or fails (\"sio.Binary cannot be a pointer\")")
		}
		// stores through pointers derived from the argument (other than the header's Type/Attachments)
		for _, b := range fn.Blocks {
			for _, in := range b.Instrs {
				st, ok := in.(*ssa.Store)
				if !ok {
					continue
				}
				fa, ok := st.Addr.(*ssa.FieldAddr)
				if !ok {
					continue
				}
				if par, isPar := fa.X.(*ssa.Parameter); isPar && vname(par) == "header" {
					fld := fieldName(fa.X.Type(), fa.Field)
					c.Ob(rule, FuncName(fn)+"#header."+fld, st.Pos(), fld == "Type" || fld == "Attachments", "Encode writes header."+fld+" of the caller's header (only Type and Attachments are derived by encoding)")
				}
			}
		}
	}
	c.Note("%d functions reachable from Encode, %d reflect setter calls examined", len(fns), nSet)
	if len(fns) < 6 {
		c.Ob(rule, "jsonparser.Parser.Encode/reach", p.Fn("jsonparser", "Parser.Encode").Pos(), false, fmt.Sprintf("only %d functions reachable from Encode: the deconstruct walk is not visible to the analysis", len(fns)))
	}
}

// headerLayout implements C09-D2 (also C05-D7).
func headerLayout(c *Ctx, rule string) {
	p := c.P
	fn := p.Fn("jsonparser", "Parser.encodeString")
	name := "jsonparser.Parser.encodeString"
	find := func(pred func(cs CallSite) bool) []CallSite {
		var out []CallSite
		for _, cs := range Calls(fn) {
			if pred(cs) {
				out = append(out, cs)
			}
		}
		return out
	}
	wType := find(func(cs CallSite) bool {
		return strings.HasSuffix(cs.Name, "bytes.Buffer).WriteByte") && Term(cs.Arg(0)) == "header.Type.ToChar()"
	})
	wAtt := find(func(cs CallSite) bool {
		return strings.HasSuffix(cs.Name, "bytes.Buffer).WriteString") && Term(cs.Arg(0)) == `(strconv.Itoa(header.Attachments) + "-")`
	})
	wNsp := find(func(cs CallSite) bool {
		return strings.HasSuffix(cs.Name, "bytes.Buffer).WriteString") && Term(cs.Arg(0)) == `(header.Namespace + ",")`
	})
	wID := find(func(cs CallSite) bool {
		return strings.HasSuffix(cs.Name, "bytes.Buffer).WriteString") && Term(cs.Arg(0)) == `strconv.FormatUint(*header.ID, 10)`
	})
	wJSON := find(func(cs CallSite) bool { return strings.HasSuffix(cs.Name, ".Encode") && Term(cs.Arg(0)) == "v" })
	for _, w := range []struct {
		what string
		cs   []CallSite
	}{{"type-char", wType}, {"attachments-dash", wAtt}, {"namespace-comma", wNsp}, {"ack-id", wID}, {"json", wJSON}} {
		c.Ob(rule, name+"/writes-"+w.what, fn.Pos(), len(w.cs) == 1, fmt.Sprintf("expected exactly one write of the %s field, found %d (v5 header: <type>[<n>-][<nsp>,][<id>]<json>)", w.what, len(w.cs)))
	}
	if len(wType) != 1 || len(wAtt) != 1 || len(wNsp) != 1 || len(wID) != 1 || len(wJSON) != 1 {
		return
	}
	is := func(cs CallSite) instrPred { return func(in ssa.Instruction) bool { return in == cs.Instr } }
	// order: type → attachments → namespace → id → json
	seq := []struct {
		what string
		cs   CallSite
	}{{"type", wType[0]}, {"attachments", wAtt[0]}, {"namespace", wNsp[0]}, {"id", wID[0]}, {"json", wJSON[0]}}
	for i := 0; i < len(seq); i++ {
		for j := 0; j < i; j++ {
			back, _ := CanReachAvoiding(fn, seq[i].cs.Instr, is(seq[j].cs), nil)
			c.Ob(rule, name+"/order/"+seq[j].what+"-before-"+seq[i].what, seq[i].cs.Pos(), !back, "the "+seq[j].what+" field can be written after the "+seq[i].what+" field")
		}
	}
	c.Ob(rule, name+"/type-first", wType[0].Pos(), len(GuardTerms(wType[0].Instr)) == 0 && Dominates(wType[0].Instr, wAtt[0].Instr) && Dominates(wType[0].Instr, wNsp[0].Instr) && Dominates(wType[0].Instr, wID[0].Instr), "the type character must be written first, unconditionally")
	// conditions, by path pruning
	T5, T6 := `\(header\.Type == 5\)`, `\(header\.Type == 6\)`
	nsNE, nsNR := `\(header\.Namespace != ""\)`, `\(header\.Namespace != "/"\)`
	idNN := `\(header\.ID != nil\)`
	must := func(what string, as []Assume, cs CallSite) {
		skip, trail := PrunedCanReach(fn, nil, as, nil, is(cs))
		c.Ob(rule, name+"/"+what, cs.Pos(), !skip, "a path returns without this write although its condition holds: "+trailString(p, trail))
	}
	never := func(what string, as []Assume, cs CallSite) {
		r, trail := PrunedCanReach(fn, nil, as, is(cs), nil)
		c.Ob(rule, name+"/"+what, cs.Pos(), !r, "this write is reachable although its condition does not hold: "+trailString(p, trail))
	}
	must("attachments-for-BINARY_EVENT", []Assume{{T5, true}}, wAtt[0])
	must("attachments-for-BINARY_ACK", []Assume{{T5, false}, {T6, true}}, wAtt[0])
	never("no-attachments-for-text", []Assume{{T5, false}, {T6, false}}, wAtt[0])
	for _, ty := range []struct {
		n  string
		as []Assume
	}{{"binary-event", []Assume{{T5, true}}}, {"binary-ack", []Assume{{T5, false}, {T6, true}}}, {"text", []Assume{{T5, false}, {T6, false}}}} {
		must("namespace-for-"+ty.n, append([]Assume{{nsNE, true}, {nsNR, true}}, ty.as...), wNsp[0])
		must("id-for-"+ty.n, append([]Assume{{idNN, true}}, ty.as...), wID[0])
	}
	never("no-namespace-when-empty", []Assume{{nsNE, false}}, wNsp[0])
	never("no-namespace-for-root", []Assume{{nsNE, true}, {nsNR, false}}, wNsp[0])
	never("no-id-when-nil", []Assume{{idNN, false}}, wID[0])

	// reader: same order, same delimiters
	rd := p.Fn("jsonparser", "Parser.parseHeader")
	rname := "jsonparser.Parser.parseHeader"
	fc := CallsTo(Calls(rd), `\(\*parser\.PacketType\)\.FromChar`)
	ib := CallsTo(Calls(rd), `bytes\.IndexByte`)
	isBin := CallsTo(Calls(rd), `\(\*parser\.PacketHeader\)\.IsBinary`)
	cmp := func(k string) []ssa.Instruction {
		return findInstrs(rd, func(in ssa.Instruction) bool {
			b, ok := in.(*ssa.BinOp)
			return ok && b.Op == token.EQL && Term(b.Y) == k && strings.HasPrefix(Term(b.X), "φ") || ok && b.Op == token.EQL && Term(b.Y) == k && strings.Contains(Term(b.X), "[")
		})
	}
	slash, comma := cmp("47"), cmp("44")
	nsSt := findInstrs(rd, fieldStorePred(p.Field("parser", "PacketHeader", "Namespace")))
	idSt := findInstrs(rd, fieldStorePred(p.Field("parser", "PacketHeader", "ID")))
	atSt := findInstrs(rd, fieldStorePred(p.Field("parser", "PacketHeader", "Attachments")))
	okShape := len(fc) == 1 && len(ib) == 1 && len(isBin) >= 1 && len(slash) >= 1 && len(comma) >= 1 && len(idSt) == 1 && len(atSt) == 1 && len(nsSt) >= 1
	c.Ob(rule, rname+"/shape", rd.Pos(), okShape, fmt.Sprintf("reader elements found: FromChar=%d IndexByte=%d IsBinary=%d '/'-tests=%d ','-tests=%d ID-stores=%d Attachments-stores=%d Namespace-stores=%d", len(fc), len(ib), len(isBin), len(slash), len(comma), len(idSt), len(atSt), len(nsSt)))
	if !okShape {
		return
	}
	c.Ob(rule, rname+"/type-first", fc[0].Pos(), Term(fc[0].Arg(0)) == "data[0]" && Dominates(fc[0].Instr, ib[0].Instr), "the reader must take the type from the first byte before anything else")
	c.Ob(rule, rname+"/attachments-delimiter", ib[0].Pos(), Term(ib[0].Arg(1)) == "45" && HasGuard(ib[0].Instr, `.*\.IsBinary\(\)==true`), "the attachment count must be read up to '-' (45) exactly for binary types; the writer emits <n>- exactly then")
	c.Ob(rule, rname+"/attachments-before-namespace", atSt[0].Pos(), !func() bool {
		r, _ := CanReachAvoiding(rd, nsSt[0], func(in ssa.Instruction) bool { return in == atSt[0] }, nil)
		return r
	}(), "the reader takes the namespace before the attachment count, the writer emits the count first")
	for _, s := range nsSt {
		r, _ := CanReachAvoiding(rd, idSt[0], func(in ssa.Instruction) bool { return in == s }, nil)
		c.Ob(rule, rname+"/namespace-before-id", s.Pos(), !r, "the reader takes the ack id before the namespace, the writer emits the namespace first")
	}
	// the namespace branch is NOT conditioned on the packet being text
	for _, s := range nsSt {
		if Term(s.(*ssa.Store).Val) == `"/"` {
			continue
		}
		var extra []string
		for _, g := range GuardTerms(s) {
			if strings.Contains(g, "IsBinary()") || strings.Contains(g, "IsEvent()") || strings.Contains(g, "IsAck()") || strings.Contains(g, ".Type ==") || strings.Contains(g, ".Type !=") {
				extra = append(extra, g)
			}
		}
		c.Ob(rule, rname+"/namespace-for-every-type", s.Pos(), len(extra) == 0, fmt.Sprintf("the namespace is parsed only under %v; the writer emits it for every packet type", extra))
	}
	c.Ob(rule, rname+"/namespace-delimiter", comma[0].Pos(), true, "namespace read up to ',' (44), written with ','")
}

func runC09(c *Ctx) {
	p := c.P

	c.Rule("C09-D1", "Encode is effect-free on its argument: no function reachable from (*Parser).Encode calls a reflect setter on a reflect.Value derived from the argument, nor writes header fields other than Type and Attachments", 6)
	encodePurity(c, "C09-D1")

	c.Rule("C09-D2", "header layout agreement: the writer emits <type>[<n>-][<nsp>,][<id>]<json> — each optional field exactly under its own condition, independent of the others — and the reader consumes the same fields in the same order with the same delimiters", 30)
	headerLayout(c, "C09-D2")

	c.Rule("C09-D6", "the three value walkers agree on what they descend into: hasBinary (decides the packet type), deconstructValue (extracts the attachments) and reconstructValue (puts them back) "+
		"compare the value kind and the slice element kind with the same sets of reflect.Kind constants — a kind one of them skips makes Encode announce no/fewer attachments than it extracts, or the decoder leave placeholders behind", 6)
	{
		type kinds struct{ outer, inner map[int64]bool }
		kindsOf := func(fn *ssa.Function) kinds {
			k := kinds{map[int64]bool{}, map[int64]bool{}}
			for _, b := range fn.Blocks {
				for _, in := range b.Instrs {
					bo, ok := in.(*ssa.BinOp)
					if !ok || (bo.Op != token.EQL && bo.Op != token.NEQ) {
						continue
					}
					kc, isK := bo.Y.(*ssa.Const)
					if !isK || kc.Value == nil || kc.Value.Kind() != constant.Int {
						continue
					}
					if nt, ok := bo.X.Type().(*types.Named); !ok || nt.Obj().Name() != "Kind" || nt.Obj().Pkg() == nil || nt.Obj().Pkg().Path() != "reflect" {
						continue
					}
					if strings.Contains(Term(bo.X), ".Type().Elem().Kind()") {
						k.inner[kc.Int64()] = true
					} else {
						k.outer[kc.Int64()] = true
					}
				}
			}
			return k
		}
		show := func(m map[int64]bool) string {
			var ks []int
			for k := range m {
				ks = append(ks, int(k))
			}
			sort.Ints(ks)
			var out []string
			for _, k := range ks {
				out = append(out, reflect.Kind(k).String())
			}
			return "{" + strings.Join(out, ",") + "}"
		}
		same := func(a, b map[int64]bool) bool {
			if len(a) != len(b) {
				return false
			}
			for k := range a {
				if !b[k] {
					return false
				}
			}
			return true
		}
		walkers := []struct{ label, short, name string }{
			{"hasBinary", "jsonparser", "hasBinary"},
			{"deconstructValue", "jsonparser", "Parser.deconstructValue"},
			{"reconstructValue", "jsonparser", "reconstructor.reconstructValue"},
		}
		ref := kindsOf(p.Fn(walkers[1].short, walkers[1].name))
		if len(ref.outer) < 4 || len(ref.inner) < 4 {
			c.Undecided("C09-D6: deconstructValue compares only %d value kinds and %d element kinds (kind switch not recognised)", len(ref.outer), len(ref.inner))
		}
		for _, w := range walkers {
			fn := p.Fn(w.short, w.name)
			k := kindsOf(fn)
			c.Ob("C09-D6", "jsonparser."+w.label+"/value-kinds", fn.Pos(), same(k.outer, ref.outer), fmt.Sprintf("%s tests the value kind against %s, deconstructValue against %s", w.label, show(k.outer), show(ref.outer)))
			// closure: a container kind the walker descends into as a value (slice, struct, map) it must also descend into
			// as the element of a slice, and so for the two indirections (F33: maps were missing)
			var missing []string
			for _, ck := range []reflect.Kind{reflect.Slice, reflect.Struct, reflect.Map, reflect.Ptr, reflect.Interface} {
				if k.outer[int64(ck)] && !k.inner[int64(ck)] {
					missing = append(missing, ck.String())
				}
			}
			c.Ob("C09-D6", "jsonparser."+w.label+"/element-kinds-closed", fn.Pos(), len(missing) == 0, fmt.Sprintf("%s handles values of kind %s but does not descend into slice elements of kind %v: a Binary below such an element is not found (Encode then fails in the JSON marshaller, or the decoder leaves the placeholder)", w.label, show(k.outer), missing))
			c.Ob("C09-D6", "jsonparser."+w.label+"/element-kinds", fn.Pos(), same(k.inner, ref.inner), fmt.Sprintf("%s descends into slices whose element kind is in %s, deconstructValue into %s: values reachable only through the missing kind are not seen by one of the walkers", w.label, show(k.inner), show(ref.inner)))
		}
	}

	c.Rule("C09-D5", "the ack id keeps its full uint64 range and base on both sides (FormatUint base 10 / ParseUint base 10, width 0 or 64); the frames Encode returns are freshly allocated (not scratch storage of the parser that a later Encode would overwrite)", 4)
	{
		rd := p.Fn("jsonparser", "Parser.parseHeader")
		idSt := findInstrs(rd, fieldStorePred(p.Field("parser", "PacketHeader", "ID")))
		okW := false
		detail := "no ParseUint feeds header.ID"
		for _, cs := range CallsTo(Calls(rd), `strconv\.ParseUint`) {
			// the call whose result is stored (through the local `num`) into header.ID
			feeds := false
			for _, st := range idSt {
				if al, isAl := st.(*ssa.Store).Val.(*ssa.Alloc); isAl && al.Referrers() != nil {
					for _, r2 := range *al.Referrers() {
						if s2, isSt := r2.(*ssa.Store); isSt && s2.Addr == ssa.Value(al) && strings.HasPrefix(Term(s2.Val), Term(cs.Instr.(*ssa.Call))) {
							feeds = true
						}
					}
				}
			}
			if !feeds {
				continue
			}
			base, bits := Term(cs.Arg(1)), Term(cs.Arg(2))
			okW = base == "10" && (bits == "0" || bits == "64")
			detail = "the ack id is parsed with base " + base + ", bit size " + bits + " (the writer emits the full uint64 in base 10: ids >= 2^" + bits + " would be rejected)"
		}
		c.Ob("C09-D5", "jsonparser.Parser.parseHeader/id-width", rd.Pos(), okW, detail)
		wr := p.Fn("jsonparser", "Parser.encodeString")
		fu := CallsTo(Calls(wr), `strconv\.FormatUint`)
		c.Ob("C09-D5", "jsonparser.Parser.encodeString/id-base", wr.Pos(), len(fu) == 1 && Term(fu[0].Arg(0)) == "*header.ID" && Term(fu[0].Arg(1)) == "10", "the ack id must be written as FormatUint(*header.ID, 10)")
		freshResult2(c, "C09-D5", "jsonparser.Parser.encodeBinary", p.Fn("jsonparser", "Parser.encodeBinary"))
		freshResult2(c, "C09-D5", "jsonparser.Parser.Encode", p.Fn("jsonparser", "Parser.Encode"))
	}

	c.Rule("C09-D3", "packet-type table = Socket.IO protocol v5: CONNECT 0, DISCONNECT 1, EVENT 2, ACK 3, CONNECT_ERROR 4, BINARY_EVENT 5, BINARY_ACK 6; ToChar/FromChar are inverse with bounds '0'..'6'; Encode promotes EVENT→BINARY_EVENT and ACK→BINARY_ACK only", 10)
	{
		want := map[string]string{"PacketTypeConnect": "0", "PacketTypeDisconnect": "1", "PacketTypeEvent": "2", "PacketTypeAck": "3", "PacketTypeConnectError": "4", "PacketTypeBinaryEvent": "5", "PacketTypeBinaryAck": "6"}
		for n, w := range want {
			v := p.ConstVal("parser", n)
			c.Ob("C09-D3", "parser."+n, p.Pkg("parser").Types.Scope().Lookup(n).Pos(), v == w, n+" = "+v+" (protocol v5: "+w+")")
		}
		tc := p.Fn("parser", "PacketType.ToChar")
		c.Ob("C09-D3", "parser.PacketType.ToChar", tc.Pos(), soleReturnTerm(tc) == "(p + 48)" || soleReturnTerm(tc) == "(48 + p)", "ToChar returns "+soleReturnTerm(tc)+" (expected the type digit: p + '0')")
		fc := p.Fn("parser", "PacketType.FromChar")
		okB := false
		for _, st := range findInstrs(fc, func(in ssa.Instruction) bool { _, ok := in.(*ssa.Store); return ok }) {
			s := st.(*ssa.Store)
			if Addr(s.Addr) == "*p" && Term(s.Val) == "(b - 48)" {
				okB = HasGuard(st, `\(b < 48\)==false`) && HasGuard(st, `\(b > 54\)==false`)
			}
		}
		c.Ob("C09-D3", "parser.PacketType.FromChar", fc.Pos(), okB, "FromChar must accept exactly '0'..'6' and store b - '0'")
		ib := p.Fn("parser", "PacketHeader.IsBinary")
		c.Ob("C09-D3", "parser.PacketHeader.IsBinary", ib.Pos(), strings.Contains(soleReturnTerm(ib), "φ(") || strings.Contains(soleReturnTerm(ib), "p.Type == 6"), "IsBinary must be true exactly for BINARY_EVENT and BINARY_ACK; returns "+soleReturnTerm(ib))
		for _, b := range ib.Blocks {
			for _, in := range b.Instrs {
				if bo, ok := in.(*ssa.BinOp); ok && bo.Op == token.EQL {
					k := Term(bo.Y)
					c.Ob("C09-D3", "parser.PacketHeader.IsBinary/"+k, bo.Pos(), k == "5" || k == "6", "IsBinary compares the type with "+k)
				}
			}
		}
		en := p.Fn("jsonparser", "Parser.Encode")
		for _, st := range findInstrs(en, fieldStorePred(p.Field("parser", "PacketHeader", "Type"))) {
			v := Term(st.(*ssa.Store).Val)
			ok := (v == "5" && HasGuard(st, `\(header\.Type == 2\)==true`)) || (v == "6" && HasGuard(st, `\(header\.Type == 3\)==true`))
			c.Ob("C09-D3", "jsonparser.Parser.Encode/promotes-"+v, st.Pos(), ok && HasGuard(st, `jsonparser\.hasBinary\(\[reflect\.ValueOf\(.*\)\]\)==true`), "header.Type = "+v+" under "+strings.Join(GuardTerms(st), ",")+" (expected EVENT→5, ACK→6, only when the value has binary leaves)")
		}
	}

	c.Rule("C09-D7", "attachment completion: on the path of (*Parser).Add that holds a reconstructor, affine forms over N (attachment frames received) and A (header.Attachments) are propagated through the "+
		"stores that build the reconstructor, the per-frame effect of addBuffer and the test that decides finish(...): the packet is complete exactly when N = A, whichever way the count is kept "+
		"(count-down field, count-up field, length of the buffer slice)", 3)
	attachmentCompletion(c, "C09-D7")

	c09NoSharedWalkerState(c, "C09-D8")
	reflectMapStoreRule(c, "C09-D9")
	c.Rule("C09-D12", "a decoded header owns its storage (shared with C03-D8): pointer fields of the PacketHeader built in parser/json point to a variable of that call, nil or the caller's pointer — not into the parser", 1)
	headerOwnsItsStorage(c, "C09-D12")
	c.Rule("C09-D15", "an empty position is not a placeholder (F48): in reconstructBinaryValue the placeholder is parsed only when the position holds bytes, and Binary.UnmarshalJSON reads null back as an absent Binary", 2)
	nullBinaryNotAPlaceholder(c, "C09-D15")
	c.Rule("C09-D16", "Encode can replace a Binary wherever it finds one (F62, known finding): no deconstruct function gives up with errNonSettableValue", 1)
	encodeHandlesNonSettablePositions(c, "C09-D16")
	c09MapWalkers(c)
	c09FrameWriters(c)
	c09ReconstructorOwnsFrames(c)
	c09PlaceholderSlots(c)

	c.Rule("C09-D4", "placeholder agreement: the JSON keys the encoder writes (struct tags of `placeholder`) are the literals the decoder compares; placeholder numbers are 0-based on the wire and the decoder adds 1 because the encoder prepends the header frame; attachments are counted once each", 8)
	{
		st := p.Struct("jsonparser", "placeholder")
		tags := map[string]string{}
		for i := 0; i < st.NumFields(); i++ {
			tags[st.Field(i).Name()] = st.Tag(i)
		}
		c.Ob("C09-D4", "jsonparser.placeholder/tags", p.Named("jsonparser", "placeholder").Obj().Pos(), tags["Placeholder"] == `json:"_placeholder"` && tags["Num"] == `json:"num"`, fmt.Sprintf("placeholder JSON keys %v (protocol: _placeholder, num)", tags))
		rm := p.Fn("jsonparser", "reconstructor.reconstructMap")
		lits := map[string]int{}
		for _, b := range rm.Blocks {
			for _, in := range b.Instrs {
				if bo, ok := in.(*ssa.BinOp); ok && bo.Op == token.EQL {
					if k, isC := bo.Y.(*ssa.Const); isC && k.Value != nil && strings.HasPrefix(Term(k), `"`) {
						lits[Term(k)]++
					}
				}
			}
		}
		c.Ob("C09-D4", "jsonparser.reconstructMap/literals", rm.Pos(), lits[`"_placeholder"`] >= 1 && lits[`"num"`] >= 1 && len(lits) == 2, fmt.Sprintf("the decoder compares map keys with %v (expected exactly \"_placeholder\" and \"num\")", lits))
		db := p.Fn("jsonparser", "Parser.deconstructBinaryValue")
		nf := p.Field("jsonparser", "placeholder", "Num")
		sts := findInstrs(db, fieldStorePred(nf))
		c.Ob("C09-D4", "jsonparser.deconstructBinaryValue/num", db.Pos(), len(sts) == 1 && Term(sts[0].(*ssa.Store).Val) == "*numBuffers", "placeholder.Num must be the number of attachments collected so far (0-based)")
		incs := findInstrs(db, storeValPred(`\*numBuffers`, `\(\*numBuffers \+ 1\)`))
		c.Ob("C09-D4", "jsonparser.deconstructBinaryValue/counts-once", db.Pos(), len(incs) == 1, "the attachment counter must be incremented exactly once per Binary leaf")
		rb := p.Fn("jsonparser", "reconstructor.reconstructBinaryValue")
		plus := findInstrs(rb, func(in ssa.Instruction) bool {
			b, ok := in.(*ssa.BinOp)
			return ok && b.Op == token.ADD && strings.HasSuffix(Term(b.X), ".Num") && Term(b.Y) == "1"
		})
		c.Ob("C09-D4", "jsonparser.reconstructBinaryValue/index-base", rb.Pos(), len(plus) >= 1, "the decoder must index buffers with num + 1 (buffer 0 is the header frame)")
		// sibling agreement: EVERY attachment lookup of the decoder indexes r.buffers with (wire number + 1)
		nIdx := 0
		for _, fnn := range []string{"reconstructor.reconstructBinaryValue", "reconstructor.reconstructMap", "reconstructor.reconstructValue", "reconstructor.reconstructStruct"} {
			f := p.Fn("jsonparser", fnn)
			for _, ff := range WithAnons(f) {
				for _, b := range ff.Blocks {
					for _, in := range b.Instrs {
						ia, ok := in.(*ssa.IndexAddr)
						if !ok || Term(ia.X) != "r.buffers" {
							continue
						}
						nIdx++
						bo, isB := ia.Index.(*ssa.BinOp)
						okI := isB && bo.Op == token.ADD && Term(bo.Y) == "1" && (strings.Contains(Term(bo.X), ".Num") || strings.Contains(Term(bo.X), ".Float()"))
						c.Ob("C09-D4", "jsonparser."+fnn+"/attachment-index", ia.Pos(), okI, "an attachment is looked up as r.buffers["+Term(ia.Index)+"] (expected the wire number + 1: buffer 0 is the header frame; sibling branches must agree)")
					}
				}
			}
		}
		c.Ob("C09-D4", "jsonparser.reconstruct/attachment-lookups", rb.Pos(), nIdx == 3, fmt.Sprintf("%d attachment lookups found in the decoder (expected 3: typed Binary and the two map-key orders)", nIdx))
		eb := p.Fn("jsonparser", "Parser.encodeBinary")
		okPre := false
		for _, cs := range CallsTo(Calls(eb), "append") {
			if strings.HasPrefix(Term(cs.Common().Args[0]), "[p.encodeString(header, v)#0]") {
				okPre = true
			}
		}
		c.Ob("C09-D4", "jsonparser.encodeBinary/header-frame-first", eb.Pos(), okPre, "the header frame must be prepended to the attachment frames")
		af := findInstrs(eb, fieldStorePred(p.Field("parser", "PacketHeader", "Attachments")))
		c.Ob("C09-D4", "jsonparser.encodeBinary/attachments-count", eb.Pos(), len(af) == 1 && Term(af[0].(*ssa.Store).Val) == "numBuffers", "header.Attachments must be the number of attachments collected")
	}
}

// freshResult2: the first result of fn is never (a re-slicing / append onto) storage reachable from a field of the receiver.
func freshResult2(c *Ctx, rule, name string, fn *ssa.Function) {
	for _, b := range fn.Blocks {
		ret, ok := b.Instrs[len(b.Instrs)-1].(*ssa.Return)
		if !ok || len(ret.Results) < 1 || (len(b.Preds) == 0 && b.Index != 0) {
			continue
		}
		bad := ""
		seen := map[ssa.Value]bool{}
		var walk func(v ssa.Value)
		walk = func(v ssa.Value) {
			if seen[v] || bad != "" {
				return
			}
			seen[v] = true
			switch x := v.(type) {
			case *ssa.Phi:
				for _, e := range x.Edges {
					walk(e)
				}
			case *ssa.Slice:
				walk(x.X)
			case *ssa.Extract:
				walk(x.Tuple)
			case *ssa.Call:
				if bi, isB := x.Call.Value.(*ssa.Builtin); isB && bi.Name() == "append" {
					walk(x.Call.Args[0])
				}
			case *ssa.UnOp:
				if fa, isFA := x.X.(*ssa.FieldAddr); isFA {
					if par, isPar := fa.X.(*ssa.Parameter); isPar && par == fn.Params[0] {
						bad = Term(x)
					}
					return
				}
				if al, isAl := x.X.(*ssa.Alloc); isAl && al.Referrers() != nil {
					for _, r := range *al.Referrers() {
						if st, isSt := r.(*ssa.Store); isSt && st.Addr == ssa.Value(al) {
							walk(st.Val)
						}
					}
				}
			}
		}
		walk(ret.Results[0])
		c.Ob(rule, name+"/fresh-frames", ret.Pos(), bad == "", "the returned frames are built on "+bad+", storage kept on the parser: a later Encode overwrites frames a caller still holds")
	}
}
