package main

// Constant evaluation of SSA expressions under an environment for a few free
// values, and enumeration of the CFG paths that remain when every branch whose
// condition evaluates is pruned (A5/A8: form tables of the WebTransport framer).
// Nothing is executed: expressions are folded with go/constant-like integer
// semantics of the SSA operators, paths are walked in the CFG.

import (
	"fmt"
	"go/constant"
	"go/token"
	"go/types"
	"sort"
	"strings"

	"golang.org/x/tools/go/ssa"
)

type constEnv struct {
	byValue map[ssa.Value]int64 // free values (e.g. a call result)
	byTerm  map[string]int64    // free loads, by term (e.g. "firstByte[0]")
	boolT   map[string]bool     // free boolean terms
}

func truncTo(T types.Type, x int64) int64 {
	b, ok := T.Underlying().(*types.Basic)
	if !ok {
		return x
	}
	switch b.Kind() {
	case types.Uint8:
		return int64(uint8(x))
	case types.Int8:
		return int64(int8(x))
	case types.Uint16:
		return int64(uint16(x))
	case types.Int16:
		return int64(int16(x))
	case types.Uint32:
		return int64(uint32(x))
	case types.Int32:
		return int64(int32(x))
	}
	return x
}

func (e *constEnv) evalInt(v ssa.Value, phiSrc map[*ssa.Phi]ssa.Value, depth int) (int64, bool) {
	if depth > 24 {
		return 0, false
	}
	if x, ok := e.byValue[v]; ok {
		return x, true
	}
	switch x := v.(type) {
	case *ssa.Const:
		if x.Value != nil && x.Value.Kind() == constant.Int {
			if i, ok := constant.Int64Val(x.Value); ok {
				return i, true
			}
		}
		return 0, false
	case *ssa.Convert:
		if !isIntType(x.Type()) || !isIntType(x.X.Type()) {
			return 0, false
		}
		i, ok := e.evalInt(x.X, phiSrc, depth+1)
		if !ok {
			return 0, false
		}
		return truncTo(x.Type(), i), true
	case *ssa.ChangeType:
		return e.evalInt(x.X, phiSrc, depth+1)
	case *ssa.Phi:
		if src, ok := phiSrc[x]; ok && src != ssa.Value(x) {
			return e.evalInt(src, phiSrc, depth+1)
		}
		return 0, false
	case *ssa.UnOp:
		if x.Op == token.MUL {
			if i, ok := e.byTerm[Term(x)]; ok {
				return i, true
			}
		}
		if x.Op == token.SUB {
			if i, ok := e.evalInt(x.X, phiSrc, depth+1); ok {
				return truncTo(x.Type(), -i), true
			}
		}
		return 0, false
	case *ssa.BinOp:
		if !isIntType(x.Type()) {
			return 0, false
		}
		a, ok1 := e.evalInt(x.X, phiSrc, depth+1)
		b, ok2 := e.evalInt(x.Y, phiSrc, depth+1)
		if !ok1 || !ok2 {
			return 0, false
		}
		var r int64
		switch x.Op {
		case token.ADD:
			r = a + b
		case token.SUB:
			r = a - b
		case token.MUL:
			r = a * b
		case token.AND:
			r = a & b
		case token.OR:
			r = a | b
		case token.XOR:
			r = a ^ b
		case token.AND_NOT:
			r = a &^ b
		case token.SHL:
			if b < 0 || b > 62 {
				return 0, false
			}
			r = a << uint(b)
		case token.SHR:
			if b < 0 || b > 62 {
				return 0, false
			}
			r = a >> uint(b)
		case token.QUO:
			if b == 0 {
				return 0, false
			}
			r = a / b
		case token.REM:
			if b == 0 {
				return 0, false
			}
			r = a % b
		default:
			return 0, false
		}
		return truncTo(x.Type(), r), true
	}
	return 0, false
}

func (e *constEnv) evalBool(v ssa.Value, phiSrc map[*ssa.Phi]ssa.Value, depth int) (bool, bool) {
	if depth > 24 {
		return false, false
	}
	if b, ok := e.boolT[Term(v)]; ok {
		return b, true
	}
	switch x := v.(type) {
	case *ssa.Const:
		if x.Value != nil && x.Value.Kind() == constant.Bool {
			return constant.BoolVal(x.Value), true
		}
	case *ssa.UnOp:
		if x.Op == token.NOT {
			b, ok := e.evalBool(x.X, phiSrc, depth+1)
			return !b, ok
		}
	case *ssa.Phi:
		if src, ok := phiSrc[x]; ok && src != ssa.Value(x) {
			return e.evalBool(src, phiSrc, depth+1)
		}
	case *ssa.BinOp:
		if !isIntType(x.X.Type()) {
			return false, false
		}
		a, ok1 := e.evalInt(x.X, phiSrc, depth+1)
		b, ok2 := e.evalInt(x.Y, phiSrc, depth+1)
		if !ok1 || !ok2 {
			return false, false
		}
		switch x.Op {
		case token.EQL:
			return a == b, true
		case token.NEQ:
			return a != b, true
		case token.LSS:
			return a < b, true
		case token.LEQ:
			return a <= b, true
		case token.GTR:
			return a > b, true
		case token.GEQ:
			return a >= b, true
		}
	}
	return false, false
}

type cfgPath struct {
	Instrs []ssa.Instruction
	PhiSrc map[*ssa.Phi]ssa.Value
	Loops  bool // the path came back to a state it had already been in
	End    ssa.Instruction
}

// prunedPaths enumerates the entry→exit paths of fn that remain when every
// branch whose condition evaluates under env takes only that edge.  Phi sources
// are tracked along each path.  A path that re-enters a block with the same phi
// sources is reported with Loops=true (it would never terminate).  Paths stop
// at instructions satisfying stop (inclusive).
func prunedPaths(fn *ssa.Function, env *constEnv, stop instrPred, maxPaths int) ([]cfgPath, bool) {
	var out []cfgPath
	complete := true
	type state struct {
		b      *ssa.BasicBlock
		pred   *ssa.BasicBlock
		instrs []ssa.Instruction
		phiSrc map[*ssa.Phi]ssa.Value
		seen   map[string]bool
	}
	keyOf := func(b *ssa.BasicBlock, ps map[*ssa.Phi]ssa.Value) string {
		var parts []string
		for ph, v := range ps {
			parts = append(parts, ph.Name()+"="+v.Name()+"/"+Term(v))
		}
		sort.Strings(parts)
		return fmt.Sprintf("%d|%s", b.Index, strings.Join(parts, ","))
	}
	var walk func(st state)
	walk = func(st state) {
		if len(out) >= maxPaths {
			complete = false
			return
		}
		ps := st.phiSrc
		if st.pred != nil {
			idx := -1
			for i, p := range st.b.Preds {
				if p == st.pred {
					idx = i
				}
			}
			nps := map[*ssa.Phi]ssa.Value{}
			for k, v := range ps {
				nps[k] = v
			}
			for _, in := range st.b.Instrs {
				ph, ok := in.(*ssa.Phi)
				if !ok {
					break
				}
				if idx < 0 {
					continue
				}
				e := ph.Edges[idx]
				if ep, isPhi := e.(*ssa.Phi); isPhi {
					if src, ok := ps[ep]; ok {
						e = src
					}
				}
				nps[ph] = e
			}
			ps = nps
		}
		k := keyOf(st.b, ps)
		if st.seen[k] {
			out = append(out, cfgPath{Instrs: st.instrs, PhiSrc: ps, Loops: true})
			return
		}
		seen := map[string]bool{k: true}
		for kk := range st.seen {
			seen[kk] = true
		}
		instrs := append([]ssa.Instruction{}, st.instrs...)
		for _, in := range st.b.Instrs {
			instrs = append(instrs, in)
			if stop != nil && stop(in) {
				out = append(out, cfgPath{Instrs: instrs, PhiSrc: ps, End: in})
				return
			}
		}
		if len(st.b.Succs) == 0 {
			out = append(out, cfgPath{Instrs: instrs, PhiSrc: ps, End: st.b.Instrs[len(st.b.Instrs)-1]})
			return
		}
		succs := st.b.Succs
		if ifi, ok := st.b.Instrs[len(st.b.Instrs)-1].(*ssa.If); ok {
			if v, known := env.evalBool(ifi.Cond, ps, 0); known {
				if v {
					succs = succs[:1]
				} else {
					succs = succs[1:2]
				}
			}
		}
		for _, s := range succs {
			walk(state{s, st.b, instrs, ps, seen})
		}
	}
	if len(fn.Blocks) > 0 {
		walk(state{fn.Blocks[0], nil, nil, map[*ssa.Phi]ssa.Value{}, nil})
	}
	return out, complete
}
