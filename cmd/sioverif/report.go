package main

// Obligations, evidence files, known findings, VIOLATION lines.

import (
	"bufio"
	"crypto/sha1"
	"encoding/hex"
	"encoding/json"
	"fmt"
	"go/token"
	"os"
	"path/filepath"
	"sort"
	"strings"
	"time"
)

type Status string

const (
	Discharged Status = "discharged"
	Violated   Status = "violated"
	Excepted   Status = "excepted"
	Known      Status = "known-finding"
)

type Obligation struct {
	Rule      string `json:"rule"`
	Construct string `json:"construct"`
	Pos       string `json:"pos"`
	Status    Status `json:"status"`
	Detail    string `json:"detail,omitempty"`
	Config    string `json:"config,omitempty"`
}

func (o *Obligation) Key() string { return o.Rule + "|" + o.Construct }

type RuleDoc struct {
	ID        string `json:"id"`
	Text      string `json:"text"`
	Instances int    `json:"instances"`
	Min       int    `json:"min_instances"`
}

type Ctx struct {
	P      *Program
	Prop   string
	Tier   string
	Config string
	Arch32 bool

	obs     []*Obligation
	rules   map[string]*RuleDoc
	ruleOrd []string
	notes   []string
	assume  []string
	fnsSeen map[string]bool
	nCalls  int
	blind   []string
}

func NewCtx(p *Program, prop, tier, config string) *Ctx {
	return &Ctx{P: p, Prop: prop, Tier: tier, Config: config, rules: map[string]*RuleDoc{}, fnsSeen: map[string]bool{}}
}

// Rule declares a rule (its text goes into the evidence) with the minimum
// number of instances confirmed by hand on the reference tree.
func (c *Ctx) Rule(id, text string, min int) {
	if _, ok := c.rules[id]; !ok {
		c.rules[id] = &RuleDoc{ID: id, Text: text, Min: min}
		c.ruleOrd = append(c.ruleOrd, id)
	}
}

func (c *Ctx) Assume(s string) {
	for _, a := range c.assume {
		if a == s {
			return
		}
	}
	c.assume = append(c.assume, s)
}

// Undecided records that a rule could not see what it needs (fewer instances than confirmed by hand, a shape it does not
// recognise).  The check goes on — violations found by other rules are still reported (exit 1); with none, the check exits 2.
func (c *Ctx) Undecided(format string, a ...any) {
	c.blind = append(c.blind, fmt.Sprintf(format, a...))
}

func (c *Ctx) Note(format string, a ...any) { c.notes = append(c.notes, fmt.Sprintf(format, a...)) }

func (c *Ctx) SawFn(name string) { c.fnsSeen[name] = true }

// Ob records one obligation.  ok=true → discharged.
func (c *Ctx) Ob(rule, construct string, pos token.Pos, ok bool, detail string) *Obligation {
	r := c.rules[rule]
	if r == nil {
		panic("undeclared rule " + rule)
	}
	r.Instances++
	st := Discharged
	if !ok {
		st = Violated
	}
	// de-duplicate identical keys by ordinal suffix
	key := construct
	n := 0
	for _, o := range c.obs {
		if o.Rule == rule && (o.Construct == key || strings.HasPrefix(o.Construct, construct+"#")) {
			n++
		}
	}
	if n > 0 {
		key = fmt.Sprintf("%s#%d", construct, n+1)
	}
	o := &Obligation{Rule: rule, Construct: key, Pos: c.P.Pos(pos), Status: st, Detail: detail, Config: c.Config}
	c.obs = append(c.obs, o)
	return o
}

func (c *Ctx) Except(rule, construct string, pos token.Pos, reason string) {
	o := c.Ob(rule, construct, pos, true, reason)
	o.Status = Excepted
}

// ------------------------------------------------------------ known findings

type Finding struct {
	Prop, Rule, Construct, What string
}

func loadFindings(path string) ([]Finding, error) {
	f, err := os.Open(path)
	if err != nil {
		if os.IsNotExist(err) {
			return nil, nil
		}
		return nil, err
	}
	defer f.Close()
	var out []Finding
	sc := bufio.NewScanner(f)
	sc.Buffer(make([]byte, 1<<20), 1<<20)
	for sc.Scan() {
		line := strings.TrimSpace(sc.Text())
		if !strings.HasPrefix(line, "finding:") {
			continue // comments and `fixed:` lines suppress nothing
		}
		rest := strings.TrimSpace(strings.TrimPrefix(line, "finding:"))
		fd := Finding{}
		// property=<id> rule=<rule> construct=<key> what=<free text>
		if i := strings.Index(rest, " what="); i >= 0 {
			fd.What = rest[i+6:]
			rest = rest[:i]
		}
		for _, tok := range strings.Fields(rest) {
			switch {
			case strings.HasPrefix(tok, "property="):
				fd.Prop = tok[9:]
			case strings.HasPrefix(tok, "rule="):
				fd.Rule = tok[5:]
			case strings.HasPrefix(tok, "construct="):
				fd.Construct = tok[10:]
			}
		}
		if fd.Prop == "" || fd.Rule == "" || fd.Construct == "" {
			return nil, fmt.Errorf("malformed finding line: %q", line)
		}
		out = append(out, fd)
	}
	return out, sc.Err()
}

// --------------------------------------------------------------- evidence

type evidence struct {
	PropertyID  string         `json:"property_id"`
	Tier        string         `json:"tier"`
	Seed        int            `json:"seed"`
	Level       string         `json:"level"`
	Coverage    map[string]any `json:"coverage"`
	Assumptions []string       `json:"assumptions"`
	WallS       float64        `json:"wall_s"`
	Violations  int            `json:"violations"`
}

type runResult struct {
	obs     []*Obligation
	rules   []*RuleDoc
	notes   []string
	assume  []string
	fns     int
	configs []string
	blind   []string
}

func mergeCtx(rr *runResult, c *Ctx) {
	rr.obs = append(rr.obs, c.obs...)
	for _, id := range c.ruleOrd {
		r := c.rules[id]
		found := false
		for _, x := range rr.rules {
			if x.ID == r.ID {
				x.Instances += r.Instances
				found = true
			}
		}
		if !found {
			cp := *r
			rr.rules = append(rr.rules, &cp)
		}
		if r.Instances < r.Min {
			rr.blind = append(rr.blind, fmt.Sprintf("rule %s matched %d instances in config %q, fewer than the %d confirmed by hand", r.ID, r.Instances, c.Config, r.Min))
		}
	}
	rr.notes = append(rr.notes, c.notes...)
	for _, bl := range c.blind {
		rr.blind = append(rr.blind, fmt.Sprintf("%s (config %q)", bl, c.Config))
	}
	for _, a := range c.assume {
		if !containsStr(rr.assume, a) {
			rr.assume = append(rr.assume, a)
		}
	}
	if len(c.fnsSeen) > rr.fns {
		rr.fns = len(c.fnsSeen)
	}
	rr.configs = append(rr.configs, c.Config)
}

func hashKey(s string) string {
	h := sha1.Sum([]byte(s))
	return hex.EncodeToString(h[:])[:12]
}

// finish writes evidence, prints VIOLATION / KNOWN-FINDING lines and returns
// the exit code.
func finish(verifDir string, prop *PropertySpec, tier string, seed int, rr *runResult, started time.Time, repoDir string) int {
	findings, err := loadFindings(filepath.Join(verifDir, "KNOWN_FINDINGS.txt"))
	if err != nil {
		fmt.Fprintf(os.Stderr, "UNDECIDED property=%s: %v\n", prop.ID, err)
		return 2
	}
	usedFinding := map[int]bool{}
	nViol, nKnown, nDis, nExc := 0, 0, 0, 0
	violDir := filepath.Join(verifDir, "evidence", "violations")
	sort.SliceStable(rr.obs, func(i, j int) bool {
		if rr.obs[i].Rule != rr.obs[j].Rule {
			return rr.obs[i].Rule < rr.obs[j].Rule
		}
		return rr.obs[i].Construct < rr.obs[j].Construct
	})
	var violLines []string
	for _, o := range rr.obs {
		switch o.Status {
		case Discharged:
			nDis++
		case Excepted:
			nExc++
		case Violated:
			matched := -1
			for i, f := range findings {
				if f.Prop == prop.ID && f.Rule == o.Rule && f.Construct == o.Construct {
					matched = i
					break
				}
			}
			if matched >= 0 {
				o.Status = Known
				nKnown++
				if !usedFinding[matched] {
					usedFinding[matched] = true
					fmt.Printf("KNOWN-FINDING: property=%s rule=%s construct=%s at %s — %s\n", prop.ID, o.Rule, o.Construct, o.Pos, findings[matched].What)
				}
				continue
			}
			nViol++
			os.MkdirAll(violDir, 0o755)
			path := filepath.Join(violDir, fmt.Sprintf("%s-%s.json", prop.ID, hashKey(o.Key()+"|"+o.Config)))
			rule := ""
			for _, r := range rr.rules {
				if r.ID == o.Rule {
					rule = r.Text
				}
			}
			b, _ := json.MarshalIndent(map[string]any{
				"property_id": prop.ID, "rule": o.Rule, "rule_text": rule, "construct": o.Construct,
				"pos": o.Pos, "detail": o.Detail, "config": o.Config, "repo": repoDir,
			}, "", " ")
			os.WriteFile(path, b, 0o644)
			violLines = append(violLines, fmt.Sprintf("VIOLATION property=%s replay=%s", prop.ID, path))
			fmt.Printf("violation: %s %s at %s: %s\n", o.Rule, o.Construct, o.Pos, o.Detail)
		}
	}

	// samples: a few obligations of each status, violated first
	var samples []any
	perRule := map[string]int{}
	for _, want := range []Status{Violated, Known, Excepted, Discharged} {
		for _, o := range rr.obs {
			if o.Status != want {
				continue
			}
			if want == Discharged || want == Excepted {
				if perRule[o.Rule] >= 2 {
					continue
				}
			}
			perRule[o.Rule]++
			samples = append(samples, o)
			if len(samples) >= 120 {
				break
			}
		}
	}
	var ruleList []any
	var expl []string
	for _, r := range rr.rules {
		ruleList = append(ruleList, r)
		expl = append(expl, r.ID+": "+r.Text)
	}
	var exceptions []any
	for _, o := range rr.obs {
		if o.Status == Excepted {
			exceptions = append(exceptions, map[string]string{"rule": o.Rule, "construct": o.Construct, "reason": o.Detail})
		}
	}
	undecided := len(rr.blind) > 0
	cov := map[string]any{
		"explanation": "Static analysis of /repo's type-checked syntax and SSA form (go/packages + go/ssa, whole module, no execution). " +
			"Decided: the structural clauses below, each a necessary condition of the property; NOT decided: " + prop.NotDecided + " Rules: " + strings.Join(expl, " || "),
		"obligations":        len(rr.obs),
		"discharged":         nDis,
		"excepted":           nExc,
		"known_findings":     nKnown,
		"violated":           nViol,
		"rule_instances":     ruleList,
		"exceptions":         exceptions,
		"functions_analysed": rr.fns,
		"packages_loaded":    rr.fns > 0,
		"configs":            rr.configs,
		"exhaustive":         true,
		"samples":            samples,
		"notes":              rr.notes,
		"evaluations":        len(rr.obs),
		"distinct_nontrivial": func() int {
			set := map[string]bool{}
			for _, o := range rr.obs {
				set[o.Key()] = true
			}
			return len(set)
		}(),
		"rule":         "one evaluation = one obligation (rule instance at a resolved construct of the current tree); distinct = distinct rule|construct keys; every instance in the loaded program is enumerated",
		"checker_cmd":  fmt.Sprintf("./bin/sioverif check %s --tier %s", prop.ID, tier),
		"trusted_base": []string{"go/types, go/ssa (golang.org/x/tools v0.29.0)", "the rule tables in /verif/cmd/sioverif (anchors confirmed by reading)"},
		"blind_rules":  rr.blind,
	}
	ev := evidence{PropertyID: prop.ID, Tier: tier, Seed: seed, Level: "other", Coverage: cov,
		Assumptions: append([]string{"third-party code (websocket, quic, JSON libraries, reflection, mapset) behaves as documented", "the analysed build configuration(s): " + strings.Join(rr.configs, "; ")}, rr.assume...),
		WallS:       time.Since(started).Seconds(), Violations: nViol}
	b, _ := json.MarshalIndent(ev, "", " ")
	os.MkdirAll(filepath.Join(verifDir, "evidence"), 0o755)
	if err := os.WriteFile(filepath.Join(verifDir, "evidence", prop.ID+".json"), b, 0o644); err != nil {
		fmt.Fprintf(os.Stderr, "UNDECIDED property=%s: cannot write evidence: %v\n", prop.ID, err)
		return 2
	}
	for _, l := range violLines {
		fmt.Println(l)
	}
	fmt.Printf("property=%s tier=%s obligations=%d discharged=%d excepted=%d known=%d violated=%d wall=%.1fs\n",
		prop.ID, tier, len(rr.obs), nDis, nExc, nKnown, nViol, time.Since(started).Seconds())
	if nViol > 0 {
		return 1
	}
	if undecided {
		for _, bl := range rr.blind {
			fmt.Fprintf(os.Stderr, "UNDECIDED property=%s: %s\n", prop.ID, bl)
		}
		return 2
	}
	return 0
}
