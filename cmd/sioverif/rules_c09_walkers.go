package main

// C09-D10: the two map walkers hand every entry to something (F36).
// C09-D11: a placeholder is recognised at every interface slot the decoder unwraps (F35).

import (
	"fmt"
	"go/constant"
	"go/token"
	"strings"

	"golang.org/x/tools/go/ssa"
)

// comparesWithLiteral: fn contains a comparison with, or a reflect.ValueOf of, the string literal lit.
func comparesWithLiteral(fn *ssa.Function, lit string) bool {
	isLit := func(v ssa.Value) bool {
		switch x := v.(type) {
		case *ssa.Const:
			return x.Value != nil && x.Value.Kind() == constant.String && constant.StringVal(x.Value) == lit
		case *ssa.MakeInterface:
			k, ok := x.X.(*ssa.Const)
			return ok && k.Value != nil && k.Value.Kind() == constant.String && constant.StringVal(k.Value) == lit
		}
		return false
	}
	for _, f := range WithAnons(fn) {
		for _, b := range f.Blocks {
			for _, in := range b.Instrs {
				switch x := in.(type) {
				case *ssa.BinOp:
					if (x.Op == token.EQL || x.Op == token.NEQ) && (isLit(x.X) || isLit(x.Y)) {
						return true
					}
				case *ssa.Call:
					for _, a := range x.Call.Args {
						if isLit(a) {
							return true
						}
					}
				}
			}
		}
	}
	return false
}

func c09MapWalkers(c *Ctx) {
	p := c.P
	c.Rule("C09-D10", "the map walkers leave no entry unvisited: in deconstructMap and reconstructMap no path leads from one iteration of the entry loop to the next without handing the entry to the leaf function "+
		"(de/reconstructBinaryValue), to the generic walker (de/reconstructValue) or replacing it (SetMapIndex) — the encoder descends into every value that is not a byte slice, and the decoder must "+
		"follow it there (it skipped slices that are map values: {\"k\": [<binary>]} came back with the placeholder)", 2)
	handled := callPred(`\(\*jsonparser\.(Parser|reconstructor)\)\.(de|re)construct(Binary)?Value|\(reflect\.Value\)\.SetMapIndex`)
	for _, w := range []struct{ label, name string }{{"deconstructMap", "Parser.deconstructMap"}, {"reconstructMap", "reconstructor.reconstructMap"}} {
		fn := p.Fn("jsonparser", w.name)
		nexts := CallsTo(Calls(fn), `\(\*reflect\.MapIter\)\.Next`)
		var next ssa.Instruction
		for _, cs := range nexts {
			if cs.Instr.Parent() == fn {
				next = cs.Instr
			}
		}
		if next == nil {
			// another loop form: over MapKeys()
			c.Undecided("C09-D10: the entry loop of %s was not recognised (no MapIter.Next)", w.label)
			continue
		}
		skip, trail := CanReachAvoiding(fn, next, func(in ssa.Instruction) bool { return in == next }, handled)
		c.Ob("C09-D10", "jsonparser."+w.label+"/every-entry-visited", next.Pos(), !skip, "an iteration of the entry loop can end without the entry being handed to a walker or replaced: "+trailString(p, trail))
	}
}

func c09PlaceholderSlots(c *Ctx) {
	p := c.P
	c.Rule("C09-D11", "a placeholder is recognised wherever the decoder unwraps an interface: in reconstructValue and reconstructStruct every x.Elem() taken because x.Kind() is Interface (or Ptr) has, in the same "+
		"function, a call f(x) on that same value to a function that compares with the literal \"_placeholder\" — the JSON decoder puts a placeholder object into every `any` position (top-level "+
		"argument, slice element, struct field), and only the holder of the interface can replace it; reconstructMap does it for map values only", 3)
	var recognisers []string
	isRecogniser := map[*ssa.Function]bool{}
	for _, f := range jsonparserTopFuncs(p) {
		if comparesWithLiteral(f, "_placeholder") {
			isRecogniser[f] = true
			recognisers = append(recognisers, FuncName(f))
		}
	}
	c.Note("C09-D11: functions that compare with \"_placeholder\": %s", strings.Join(recognisers, ", "))
	for _, name := range []string{"reconstructor.reconstructValue", "reconstructor.reconstructStruct"} {
		fn := p.Fn("jsonparser", name)
		n := 0
		for _, cs := range CallsTo(Calls(fn), `\(reflect\.Value\)\.Elem`) {
			if cs.Instr.Parent() != fn {
				continue
			}
			x := cs.Common().Args[0]
			// only unwraps made because of the kind: guarded by a Kind() comparison with Interface (20) on the way
			// taken because of the kind: a test of a Kind() against Interface (20) / Ptr (22) a few blocks up
			kindGuard := false
			frontier := []*ssa.BasicBlock{cs.Instr.Block()}
			for depth := 0; depth < 4 && !kindGuard; depth++ {
				var nextF []*ssa.BasicBlock
				for _, fb := range frontier {
					for _, pb := range fb.Preds {
						nextF = append(nextF, pb)
						if len(pb.Instrs) == 0 {
							continue
						}
						if ifi, isIf := pb.Instrs[len(pb.Instrs)-1].(*ssa.If); isIf {
							if bo, isB := ifi.Cond.(*ssa.BinOp); isB && bo.Op == token.EQL {
								if k, isK := bo.Y.(*ssa.Const); isK && k.Value != nil && k.Value.Kind() == constant.Int && (k.Int64() == 20 || k.Int64() == 22) {
									kindGuard = true
								}
							}
						}
					}
				}
				frontier = nextF
			}
			if !kindGuard {
				continue
			}
			n++
			found := ""
			for _, cs2 := range Calls(fn) {
				sc := cs2.Common().StaticCallee()
				if sc == nil || !isRecogniser[sc] || cs2.Instr.Parent() != fn {
					continue
				}
				for _, a := range cs2.Common().Args {
					if a == x || Term(a) == Term(x) && sameBlockOrDominates(a, x) {
						found = FuncName(sc)
					}
				}
			}
			c.Ob("C09-D11", fmt.Sprintf("jsonparser.%s/unwrap#%d", strings.TrimPrefix(name, "reconstructor."), n), cs.Pos(), found != "",
				fmt.Sprintf("%s.Elem() is taken and the interface value itself is never shown to a function that recognises placeholders (recognised by: %s): a {\"_placeholder\":true,\"num\":n} object decoded into this `any` position stays in the handler's argument instead of the attachment", Term(x), found))
		}
		if n == 0 {
			c.Undecided("C09-D11: no interface unwrap recognised in %s", name)
		}
	}
}

func sameBlockOrDominates(a, b ssa.Value) bool {
	ia, ok1 := a.(ssa.Instruction)
	ib, ok2 := b.(ssa.Instruction)
	if !ok1 || !ok2 {
		return a == b
	}
	return ia.Block() == ib.Block() || ia.Block().Dominates(ib.Block()) || ib.Block().Dominates(ia.Block())
}
