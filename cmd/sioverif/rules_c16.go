package main

// C16 — concurrency disciplines of the public API.

import (
	"fmt"
	"go/types"
	"sort"
	"strings"

	"golang.org/x/tools/go/ssa"
)

func init() {
	register(&PropertySpec{
		ID:         "C16",
		NotDecided: "absence of ALL data races and deadlocks (undecidable for this code base); this is a discipline check of what CONTRIBUTING 'Concurrency' declares: a frozen guarded-by table, Lock/Unlock pairing including panic-under-lock, no user callback under a lock an exported method re-acquires, no cycle in the lock-order graph, no Once re-entry.",
		Run:        runC16,
	})
}

// guardedBy is the frozen table: field → sibling mutex.  It was inferred with
// `sioverif census` (accesses counted per sibling mutex) and every row was
// confirmed by reading the declaring file.
var guardedBy = []struct{ short, typ, field, mutex string }{
	{"adapter", "inMemoryAdapter", "rooms", "mu"},
	{"adapter", "inMemoryAdapter", "sids", "mu"},
	{"adapter", "sessionAwareAdapter", "packets", "mu"},
	{"adapter", "sessionAwareAdapter", "sessions", "mu"},
	{"eio", "clientSocket", "transport", "transportMu"},
	{"eio", "serverSocket", "transport", "transportMu"},
	{"eio", "socketStore", "sockets", "mu"},
	{"polling", "pollQueue", "packets", "mu"},
	{"transport", "RequestHeader", "header", "mu"},
	{"sio", "Manager", "eio", "eioMu"},
	{"sio", "Manager", "eioPacketQueue", "eioMu"},
	{"sio", "Manager", "skipReconnect", "skipReconnectMu"},
	{"sio", "Manager", "state", "stateMu"},
	{"sio", "Manager", "subs", "subsMu"},
	{"sio", "Namespace", "ackID", "ackMu"},
	{"sio", "Namespace", "middlewareFuncs", "middlewareFuncsMu"},
	{"sio", "ackHandler", "called", "mu"},
	{"sio", "ackHandler", "timedOut", "mu"},
	{"sio", "backoff", "numAttempts", "numAttemptsMu"},
	{"sio", "clientPacketQueue", "queuedPackets", "mu"},
	{"sio", "clientPacketQueue", "seq", "mu"},
	{"sio", "clientSocket", "ackID", "acksMu"},
	{"sio", "clientSocket", "acks", "acksMu"},
	{"sio", "clientSocket", "active", "activeMu"},
	{"sio", "clientSocket", "subDeregister", "activeMu"},
	{"sio", "clientSocket", "authData", "authDataMu"},
	{"sio", "clientSocket", "receiveBuffer", "receiveBufferMu"},
	{"sio", "clientSocket", "sendBuffer", "sendBufferMu"},
	{"sio", "clientSocket", "state", "stateMu"},
	{"sio", "clientSocketStore", "sockets", "mu"},
	{"sio", "eventHandlerStore", "events", "mu"},
	{"sio", "eventHandlerStore", "eventsOnce", "mu"},
	{"sio", "handlerStore", "funcs", "mu"},
	{"sio", "handlerStore", "funcsOnce", "mu"},
	{"sio", "handlerStore", "subs", "mu"},
	{"sio", "nspSocketStore", "sockets", "mu"},
	{"sio", "nspStore", "nsps", "mu"},
	{"sio", "packetQueue", "packets", "mu"},
	{"sio", "serverSocket", "acks", "acksMu"},
	{"sio", "serverSocket", "connected", "connectedMu"},
	{"sio", "serverSocket", "join", "joinMu"},
	{"sio", "serverSocket", "middlewareFuncs", "middlewareFuncsMu"},
	{"sio", "serverSocketStore", "socketsByID", "mu"},
	{"sio", "serverSocketStore", "socketsByNsp", "mu"},
}

// per-access exceptions of the guarded-by table: "<type>.<field>@<function>" → reason
var guardedByExcept = map[string]string{
	"Manager.eioPacketQueue@(*sio.Manager).Close": "read of the queue pointer under eioMu.RLock is present; the census counts it — kept for documentation",
}

func isFreshBase(v ssa.Value) bool {
	switch x := v.(type) {
	case *ssa.Alloc:
		return true
	case *ssa.UnOp:
		// a local variable holding only fresh allocations (captured by a closure, hence spilled)
		if al, ok := x.X.(*ssa.Alloc); ok && al.Referrers() != nil {
			n := 0
			for _, r := range *al.Referrers() {
				if st, isSt := r.(*ssa.Store); isSt && st.Addr == ssa.Value(al) {
					n++
					if !isFreshBase(st.Val) {
						return false
					}
				}
			}
			return n > 0
		}
		return false
	case *ssa.Phi:
		for _, e := range x.Edges {
			if !isFreshBase(e) {
				return false
			}
		}
		return len(x.Edges) > 0
	case *ssa.Call:
		// result of a constructor of the same package: newX()
		if sc := x.Call.StaticCallee(); sc != nil && (strings.HasPrefix(sc.Name(), "new") || strings.HasPrefix(sc.Name(), "New")) {
			return true
		}
	}
	return false
}

// userCallback classifies a call instruction as an invocation of code supplied
// by the application.
func userCallback(cs CallSite) (string, bool) {
	n := cs.Name
	switch {
	case n == "(reflect.Value).Call":
		return "reflect call of a user handler", true
	case n == "dyn:*handler":
		return "lifecycle handler", true
	case n == "dyn:f" && strings.Contains(FuncName(cs.Fn), "handlerStore[T]).forEach"):
		return "fan-out callback (invokes the lifecycle handlers)", true
	case n == "(*sio.handlerStore[T]).forEach" && cs.Arg(1) != nil && Term(cs.Arg(1)) == "false":
		return "synchronous fan-out to lifecycle handlers", true
	case strings.HasPrefix(n, "dyn:slices.Clone(n.middlewareFuncs)[") || strings.HasPrefix(n, "dyn:n.middlewareFuncs["):
		return "namespace middleware", true
	case n == "dyn:s.authenticator":
		return "Authenticator", true
	case n == "dyn:s.upgradeDone" || n == "dyn:s.onSocket" || n == "dyn:s.onError":
		return "engine.io user callback", true
	case n == "dyn:callback" && strings.Contains(FuncName(cs.Fn), "inMemoryAdapter).apply"):
		return "adapter apply callback (joins/leaves/sends/disconnects)", true
	case strings.HasPrefix(n, "dyn:") && (strings.HasSuffix(n, ".OnPacket") || strings.HasSuffix(n, ".OnClose") || strings.HasSuffix(n, ".OnError")):
		return "engine.io Callbacks", true
	case n == "dyn:rv.Call" || n == "dyn:f.rv.Call":
		return "reflect call of a user handler", true
	}
	return "", false
}

func runC16(c *Ctx) {
	p := c.P

	c.Rule("C16-D1", "guarded-by: every access to a field of the frozen table holds the sibling mutex of the same object (read mode suffices for reads), directly, inherited by a synchronously invoked closure, or in every caller; objects not yet published (fresh allocation / constructor result) are exempt", 150)
	{
		idx := map[*types.Var]string{}
		name := map[*types.Var]string{}
		rowSeen := map[*types.Var]int{}
		for _, g := range guardedBy {
			fv := p.Field(g.short, g.typ, g.field)
			p.Field(g.short, g.typ, g.mutex)
			idx[fv] = g.mutex
			name[fv] = g.typ + "." + g.field
		}
		for _, fn := range p.SrcFuncs() {
			var li *LockInfo
			for _, fa := range FieldAccesses(fn) {
				mu, ok := idx[fa.Field]
				if !ok {
					continue
				}
				key := name[fa.Field] + "@" + FuncName(fn)
				if isFreshBase(fa.Addr.X) {
					c.Except("C16-D1", key, fa.Instr.Pos(), "object not yet published (fresh allocation in this function)")
					continue
				}
				if reason, ok := guardedByExcept[key]; ok && false {
					c.Except("C16-D1", key, fa.Instr.Pos(), reason)
					continue
				}
				if li == nil {
					li = LocksInherit(fn)
				}
				lock := fa.Base + "." + mu
				m, held := li.Held(fa.Instr)[lock]
				good := held && (!fa.Write || m == LockW)
				detail := "held=" + li.Held(fa.Instr).String()
				if !good && fn.Parent() == nil && fn.Signature.Recv() != nil && fa.Base == recvOf(fn) && !ast_IsExported(fn.Name()) {
					if okc, why := callersHold(p, fn, mu, fa.Write); okc {
						good = true
						detail = "held by every caller (" + why + ")"
					} else {
						detail += "; callers: " + why
					}
				}
				kind := "read"
				if fa.Write {
					kind = "write"
				}
				c.Ob("C16-D1", key, fa.Instr.Pos(), good, kind+" of "+name[fa.Field]+" without "+lock+" ("+detail+"): a concurrent exported call races with it")
				rowSeen[fa.Field]++
			}
		}
		// every row of the table must have matched something: a row without instances is checked vacuously
		for _, g := range guardedBy {
			if rowSeen[p.Field(g.short, g.typ, g.field)] == 0 {
				c.Undecided("C16-D1: no access of %s.%s found (row of the guarded-by table matches nothing)", g.typ, g.field)
			}
		}
	}

	c.Rule("C16-D2", "pairing: every Lock is released on every path to a normal return (or by a deferred unlock); no explicit panic and no user callback while a mutex is held by a NON-deferred Lock (a panic there leaves it locked for ever); no Unlock of a mutex that is not certainly held", 120)
	{
		for _, fn := range p.SrcFuncs() {
			uses := false
			for _, b := range fn.Blocks {
				for _, in := range b.Instrs {
					if _, ok := lockOpOf(in); ok {
						uses = true
					}
				}
			}
			if !uses {
				continue
			}
			li := LocksInherit(fn)
			nm := FuncName(fn)
			bad := 0
			for l, at := range li.LeakAtReturn {
				bad++
				c.Ob("C16-D2", nm+"/leak/"+l, at.Pos(), false, "lock "+l+" is still held at this return and no deferred unlock exists")
			}
			for _, u := range li.BadUnlock {
				op, _ := lockOpOf(u)
				bad++
				c.Ob("C16-D2", nm+"/unlock-not-held/"+op.lock, u.Pos(), false, "Unlock of "+op.lock+" on a path where it is not certainly held")
			}
			for _, b := range fn.Blocks {
				for _, in := range b.Instrs {
					if _, ok := in.(*ssa.Panic); ok {
						for l := range li.Held(in) {
							if _, inh := li.Entry[l]; !li.Deferred[l] && !inh {
								bad++
								c.Ob("C16-D2", nm+"/panic-under/"+l, in.Pos(), false, "explicit panic while "+l+" is held by a non-deferred Lock: after a recovered panic the mutex stays locked")
							}
						}
					}
					// the same through a module callee that raises an explicit panic of its own (not recovered in it)
					if call, ok := in.(*ssa.Call); ok {
						if sc := call.Call.StaticCallee(); sc != nil && p.inModule(sc) && mayPanicExplicitly(p, sc, 0, map[*ssa.Function]bool{}) {
							for l := range li.Held(in) {
								if _, inh := li.Entry[l]; !li.Deferred[l] && !inh {
									bad++
									c.Ob("C16-D2", nm+"/panic-under/"+l+"/via/"+FuncName(sc), in.Pos(), false, FuncName(sc)+" raises an explicit panic on some path (the library's handler wrappers recover it) and is called while "+l+" is held by a non-deferred Lock: the mutex stays locked for ever")
								}
							}
						}
					}
				}
			}
			if bad == 0 {
				c.Ob("C16-D2", nm+"/paired", fn.Pos(), true, "locks paired on all paths")
			}
		}
	}

	c.Rule("C16-D6", "the caller's configuration is not rearranged in place (F52): dial uses ClientConfig.Transports only to read, measure or copy it — connect and the upgrade goroutine re-slice and shift the list they work on", 1)
	callerTransportsNotMutated(c, "C16-D6")

	c.Rule("C16-D7", "caller-supplied options are made safe before a lock is taken by hand (F58): in package adapter no field of a *BroadcastOptions PARAMETER is read while a mutex is held by a non-deferred Lock, and apply normalises the options before it locks", 2)
	callerOptionsNormalisedBeforeLock(c, "C16-D7")
	c.Rule("C16-D8", "the caller's shared option structs are not written (F59): no transport stores into a DialOptions / AcceptOptions / *Config reached through a field of its own", 1)
	sharedDialOptionsNotWritten(c, "C16-D8")

	c.Rule("C16-D3", "no user callback under a lock: application code (handlers, middlewares, authenticator, adapter callbacks, Engine.IO callbacks) is never invoked while the library holds one of its own mutexes — a handler may call any exported method, several of which take those mutexes", 25)
	{
		n := 0
		for _, fn := range p.SrcFuncs() {
			var li *LockInfo
			for _, cs := range Calls(fn) {
				what, ok := userCallback(cs)
				if !ok {
					continue
				}
				if cs.IsGo() {
					n++
					c.Ob("C16-D3", what+"@"+FuncName(fn), cs.Pos(), true, "started on its own goroutine")
					continue
				}
				if li == nil {
					li = LocksInherit(fn)
				}
				held := li.MayHeld(cs.Instr) // on SOME path: a conditionally taken lock is enough to deadlock
				// locks local to the function (per-event `mu`) are not reachable from exported methods
				var bad []string
				for l := range held {
					if !strings.Contains(l, ".") {
						continue
					}
					bad = append(bad, l)
				}
				sort.Strings(bad)
				n++
				c.Ob("C16-D3", what+"@"+FuncName(fn), cs.Pos(), len(bad) == 0, what+" is invoked with "+strings.Join(bad, ",")+" held: a handler that calls back into the API (or panics) deadlocks or leaves the mutex locked")
			}
		}
		if n == 0 {
			c.Ob("C16-D3", "sites", p.Fn("sio", "eventHandler.call").Pos(), false, "no user-callback invocation site recognised")
		}
	}

	c.Rule("C16-D5", "snapshots leave the lock as copies: what the handler stores hand to code that runs outside their mutex (getAll → forEach / dispatch loops) is a freshly allocated slice, never the guarded slice itself — On/Off mutate that slice in place under the lock while the dispatcher iterates its snapshot unlocked", 2)
	freshResult(c, "C16-D5", "sio.handlerStore.getAll", p.Fn("sio", "handlerStore.getAll"))
	freshResult(c, "C16-D5", "sio.eventHandlerStore.getAll", p.Fn("sio", "eventHandlerStore.getAll"))
	for _, a := range []struct{ short, fn string }{{"sio", "clientSocketStore.getAll"}, {"sio", "serverSocketStore.getAll"}, {"sio", "serverSocketStore.getAndRemoveAll"}, {"sio", "nspSocketStore.getAll"}, {"eio", "socketStore.getAll"}} {
		freshResult(c, "C16-D5", a.short+"."+a.fn, p.Fn(a.short, a.fn))
	}

	c.Rule("C16-D4", "lock order: the graph 'class B acquired while class A is held' (direct acquisitions and acquisitions in statically resolved callees) has no cycle; no mutex is acquired while the same mutex is certainly held; a Once body does not reach Do of the same Once", 30)
	{
		useCGForLocks = true
		edges := lockOrderEdges(p)
		adj := map[string]map[string]orderEdge{}
		selfSeen := map[string]bool{}
		for _, e := range edges {
			if e.from == e.to {
				// the same lock CLASS is acquired inside a call made while it is held
				if e.via == "direct" || selfSeen[e.from+"@"+FuncName(e.fn)] {
					continue // direct re-acquisition is decided exactly by the must-held rule below
				}
				selfSeen[e.from+"@"+FuncName(e.fn)] = true
				if e.from == "adapter.inMemoryAdapter.mu" && strings.Contains(FuncName(e.fn), "inMemoryAdapter).apply") {
					c.Except("C16-D4", "self:"+e.from+"@"+FuncName(e.fn), e.instr.Pos(), "apply's iteration callbacks release mu before re-acquiring it around the user callback (decided exactly by the inherited lockset: see C16-D3 / C04-D4 outside-lock)")
					continue
				}
				c.Ob("C16-D4", "self:"+e.from+"@"+FuncName(e.fn), e.instr.Pos(), false, fmt.Sprintf("%s is held here and a callee reachable from this call (%s) acquires a mutex of the same class — through an interface or callback (VTA call graph) this is the same object: self-deadlock (Go mutexes are not re-entrant; a pending writer also blocks a recursive RLock)", e.from, e.via))
				continue
			}
			if adj[e.from] == nil {
				adj[e.from] = map[string]orderEdge{}
			}
			if _, ok := adj[e.from][e.to]; !ok {
				adj[e.from][e.to] = e
			}
		}
		var nodes []string
		for a := range adj {
			nodes = append(nodes, a)
		}
		sort.Strings(nodes)
		for _, a := range nodes {
			var tos []string
			for b := range adj[a] {
				tos = append(tos, b)
			}
			sort.Strings(tos)
			for _, b := range tos {
				e := adj[a][b]
				// is there a path b →* a ?
				path := findPath(adj, b, a)
				detail := fmt.Sprintf("%s is acquired while %s is held (%s, %s at %s)", b, a, e.via, FuncName(e.fn), p.Pos(e.instr.Pos()))
				if path != nil {
					detail += "; and the reverse order exists: " + strings.Join(path, " → ") + " — two goroutines taking them in opposite orders deadlock"
				}
				c.Ob("C16-D4", "order:"+a+"→"+b, e.instr.Pos(), path == nil, detail)
			}
		}
		// recursive acquisition: Lock of a term certainly held
		for _, fn := range p.SrcFuncs() {
			var li *LockInfo
			for _, b := range fn.Blocks {
				for _, in := range b.Instrs {
					op, ok := lockOpOf(in)
					if !ok || !op.acq || op.defer_ {
						continue
					}
					if li == nil {
						li = LocksInherit(fn)
					}
					if m, held := li.Held(in)[op.lock]; held && (m == LockW || op.mode == LockW) {
						c.Ob("C16-D4", "recursive:"+FuncName(fn)+"/"+op.lock, in.Pos(), false, op.lock+" is locked while it is already held by this goroutine: sync mutexes are not re-entrant")
					}
				}
			}
		}
		// calls made while holding L to a method of the same receiver that locks L again
		for _, fn := range p.SrcFuncs() {
			var li *LockInfo
			for _, cs := range Calls(fn) {
				if cs.IsGo() || cs.IsDefer() {
					continue
				}
				sc := cs.Common().StaticCallee()
				if sc == nil || !p.inModule(sc) || sc.Signature.Recv() == nil || len(cs.Common().Args) == 0 {
					continue
				}
				callee := originOf(sc)
				if callee.Blocks == nil {
					continue
				}
				if li == nil {
					li = LocksInherit(fn)
				}
				held := li.Held(cs.Instr)
				if len(held) == 0 {
					continue
				}
				recv := stripAmp(Term(cs.Common().Args[0]))
				crecv := recvOf(callee)
				for _, b := range callee.Blocks {
					for _, in := range b.Instrs {
						op, ok := lockOpOf(in)
						if !ok || !op.acq || !strings.HasPrefix(op.lock, crecv+".") {
							continue
						}
						l := recv + strings.TrimPrefix(op.lock, crecv)
						if m, h := held[l]; h && (m == LockW || op.mode == LockW) {
							c.Ob("C16-D4", "recursive:"+FuncName(fn)+"→"+FuncName(callee)+"/"+l, cs.Pos(), false, FuncName(fn)+" holds "+l+" and calls "+FuncName(callee)+", which locks it again: self-deadlock")
						}
					}
				}
			}
		}
		// Once re-entry
		for _, fn := range p.SrcFuncs() {
			for _, ob := range OnceBodies(fn) {
				if ob.Body == nil {
					continue
				}
				cls := lockClass(fn, ob.Site.Common().Args[0])
				reach := map[*ssa.Function]bool{}
				var visit func(f *ssa.Function, d int)
				bad := ""
				visit = func(f *ssa.Function, d int) {
					if reach[f] || f.Blocks == nil || d < 0 {
						return
					}
					reach[f] = true
					for _, ob2 := range OnceBodies(f) {
						if lockClass(f, ob2.Site.Common().Args[0]) == cls && Term(ob2.Site.Common().Args[0]) == Term(ob.Site.Common().Args[0]) {
							bad = FuncName(f)
						}
					}
					for _, cs := range Calls(f) {
						if cs.IsGo() {
							continue
						}
						if sc := cs.Common().StaticCallee(); sc != nil && p.inModule(sc) {
							visit(originOf(sc), d-1)
						}
					}
					for _, a := range f.AnonFuncs {
						visit(a, d-1)
					}
				}
				visit(ob.Body, 4)
				c.Ob("C16-D4", "once:"+FuncName(fn)+"/"+cls, ob.Site.Pos(), bad == "", "the body of "+cls+".Do reaches Do of the same Once in "+bad+": Once.Do called from its own body deadlocks")
			}
		}
	}
}

func findPath(adj map[string]map[string]orderEdge, from, to string) []string {
	seen := map[string]bool{}
	var dfs func(n string, path []string) []string
	dfs = func(n string, path []string) []string {
		if n == to {
			return append(path, n)
		}
		if seen[n] {
			return nil
		}
		seen[n] = true
		var nexts []string
		for m := range adj[n] {
			nexts = append(nexts, m)
		}
		sort.Strings(nexts)
		for _, m := range nexts {
			if r := dfs(m, append(path, n)); r != nil {
				return r
			}
		}
		return nil
	}
	return dfs(from, nil)
}

func ast_IsExported(name string) bool {
	return len(name) > 0 && name[0] >= 'A' && name[0] <= 'Z'
}

// mayPanicExplicitly: fn contains a panic(...) statement that is not under a deferred recover of fn, or calls
// (statically, depth <= 2) a module function that does.
func mayPanicExplicitly(p *Program, fn *ssa.Function, depth int, seen map[*ssa.Function]bool) bool {
	if seen[fn] || depth > 2 || len(fn.Blocks) == 0 {
		return false
	}
	seen[fn] = true
	for _, b := range fn.Blocks {
		for _, in := range b.Instrs {
			switch x := in.(type) {
			case *ssa.Panic:
				if !recoveredAt(fn, in) {
					return true
				}
			case *ssa.Call:
				if sc := x.Call.StaticCallee(); sc != nil && p.inModule(sc) && !recoveredAt(fn, in) && mayPanicExplicitly(p, sc, depth+1, seen) {
					return true
				}
			}
		}
	}
	return false
}
