package main

// Bounds prover (A6): a zone (difference-bound) abstract interpretation of one
// function's SSA form.  Atoms are integer SSA values, `len` of slice/string
// values and a zero atom; every fact has the form  a - b <= c.  Sources of
// facts: definitions (x+c normalised away, len/slice/make models, a few stdlib
// result models), branch conditions on the taken edge, phi equalities on the
// incoming edge, disequalities (x <= y and x != y gives x <= y-1).  Loops are
// handled by iteration with widening, so what remains at a loop head is an
// inductive invariant.  Anything the domain cannot express stays unknown and
// the obligation is reported, never assumed.

import (
	"fmt"
	"go/constant"
	"go/token"
	"go/types"
	"math"
	"sort"
	"strings"

	"golang.org/x/tools/go/ssa"
)

const zInf = math.MaxInt64 / 4

type zone struct {
	n   int
	d   []int64
	neq map[[2]int]bool
	bot bool
	// known values of pure boolean terms (trace partitioning key)
	bf map[string]bool
}

func (z *zone) sig() string {
	var ks []string
	for k, v := range z.bf {
		ks = append(ks, fmt.Sprintf("%s=%v", k, v))
	}
	sort.Strings(ks)
	return strings.Join(ks, ";")
}

func newZone(n int) *zone {
	z := &zone{n: n, d: make([]int64, n*n), neq: map[[2]int]bool{}}
	for i := range z.d {
		z.d[i] = zInf
	}
	for i := 0; i < n; i++ {
		z.d[i*n+i] = 0
	}
	return z
}

func (z *zone) clone() *zone {
	c := &zone{n: z.n, d: append([]int64(nil), z.d...), neq: map[[2]int]bool{}, bot: z.bot}
	for k := range z.neq {
		c.neq[k] = true
	}
	if z.bf != nil {
		c.bf = map[string]bool{}
		for k, v := range z.bf {
			c.bf[k] = v
		}
	}
	return c
}

func (z *zone) grow(n int) {
	if n <= z.n {
		return
	}
	nd := make([]int64, n*n)
	for i := range nd {
		nd[i] = zInf
	}
	for i := 0; i < n; i++ {
		nd[i*n+i] = 0
	}
	for i := 0; i < z.n; i++ {
		for j := 0; j < z.n; j++ {
			nd[i*n+j] = z.d[i*z.n+j]
		}
	}
	z.n, z.d = n, nd
}

func addSat(a, b int64) int64 {
	if a >= zInf || b >= zInf {
		return zInf
	}
	s := a + b
	if s >= zInf {
		return zInf
	}
	if s < -zInf {
		return -zInf
	}
	return s
}

// add the constraint  i - j <= c  and restore closure incrementally.
func (z *zone) add(i, j int, c int64) {
	if z.bot || i == j {
		if i == j && c < 0 {
			z.bot = true
		}
		return
	}
	n := z.n
	if c >= z.d[i*n+j] {
		return
	}
	z.d[i*n+j] = c
	for a := 0; a < n; a++ {
		dai := z.d[a*n+i]
		if dai >= zInf {
			continue
		}
		for b := 0; b < n; b++ {
			djb := z.d[j*n+b]
			if djb >= zInf {
				continue
			}
			v := addSat(addSat(dai, c), djb)
			if v < z.d[a*n+b] {
				z.d[a*n+b] = v
			}
		}
	}
	for a := 0; a < n; a++ {
		if z.d[a*n+a] < 0 {
			z.bot = true
			return
		}
	}
	z.tighten()
}

// tighten applies  x - y <= 0  and  x != y  =>  x - y <= -1.
func (z *zone) tighten() {
	changed := true
	for changed && !z.bot {
		changed = false
		for k := range z.neq {
			i, j := k[0], k[1]
			if i >= z.n || j >= z.n {
				continue
			}
			if z.d[i*z.n+j] == 0 {
				z.neq2(i, j)
				changed = true
				break
			}
			if z.d[j*z.n+i] == 0 {
				z.neq2(j, i)
				changed = true
				break
			}
		}
	}
}

func (z *zone) neq2(i, j int) {
	// called with d[i][j]==0 and i != j known
	n := z.n
	z.d[i*n+j] = -1
	for a := 0; a < n; a++ {
		dai := z.d[a*n+i]
		if dai >= zInf {
			continue
		}
		for b := 0; b < n; b++ {
			djb := z.d[j*n+b]
			if djb >= zInf {
				continue
			}
			v := addSat(addSat(dai, -1), djb)
			if v < z.d[a*n+b] {
				z.d[a*n+b] = v
			}
		}
	}
	for a := 0; a < n; a++ {
		if z.d[a*n+a] < 0 {
			z.bot = true
		}
	}
}

func (z *zone) addNeq(i, j int) {
	if i == j {
		z.bot = true
		return
	}
	if i > j {
		i, j = j, i
	}
	z.neq[[2]int{i, j}] = true
	z.tighten()
}

func (z *zone) forget(i int) {
	n := z.n
	for a := 0; a < n; a++ {
		if a != i {
			z.d[a*n+i] = zInf
			z.d[i*n+a] = zInf
		}
	}
	for k := range z.neq {
		if k[0] == i || k[1] == i {
			delete(z.neq, k)
		}
	}
}

// shift models the assignment  x := x + k.
func (z *zone) shift(x int, k int64) {
	n := z.n
	for a := 0; a < n; a++ {
		if a == x {
			continue
		}
		if z.d[x*n+a] < zInf {
			z.d[x*n+a] = addSat(z.d[x*n+a], k)
		}
		if z.d[a*n+x] < zInf {
			z.d[a*n+x] = addSat(z.d[a*n+x], -k)
		}
	}
}

func (z *zone) le(i, j int, c int64) bool { // is  i - j <= c  implied?
	if z.bot {
		return true
	}
	return z.d[i*z.n+j] <= c
}

func joinZone(a, b *zone) *zone {
	if a == nil || a.bot {
		if b == nil {
			return nil
		}
		return b.clone()
	}
	if b == nil || b.bot {
		return a.clone()
	}
	n := a.n
	if b.n > n {
		n = b.n
	}
	a2, b2 := a.clone(), b.clone()
	a2.grow(n)
	b2.grow(n)
	r := newZone(n)
	for i := range r.d {
		if a2.d[i] > b2.d[i] {
			r.d[i] = a2.d[i]
		} else {
			r.d[i] = b2.d[i]
		}
	}
	for k := range a2.neq {
		if b2.neq[k] {
			r.neq[k] = true
		} else {
			// a != b also follows from strict inequality in the other branch
			i, j := k[0], k[1]
			if b2.d[i*n+j] < 0 || b2.d[j*n+i] < 0 {
				r.neq[k] = true
			}
		}
	}
	for k := range b2.neq {
		i, j := k[0], k[1]
		if !a2.neq[k] && (a2.d[i*n+j] < 0 || a2.d[j*n+i] < 0) {
			r.neq[k] = true
		}
	}
	for k, v := range a2.bf {
		if w, ok := b2.bf[k]; ok && w == v {
			if r.bf == nil {
				r.bf = map[string]bool{}
			}
			r.bf[k] = v
		}
	}
	return r
}

func eqZone(a, b *zone) bool {
	if a == nil || b == nil {
		return a == b
	}
	if a.bot != b.bot || a.n != b.n || len(a.neq) != len(b.neq) || a.sig() != b.sig() {
		return false
	}
	for i := range a.d {
		if a.d[i] != b.d[i] {
			return false
		}
	}
	for k := range a.neq {
		if !b.neq[k] {
			return false
		}
	}
	return true
}

// ------------------------------------------------------------------ atoms

type prover struct {
	p          *Program
	fn         *ssa.Function
	atoms      map[string]int
	names      []string
	stable     map[*types.Var]bool // fields never written in fn or its static module callees
	ins        map[*ssa.BasicBlock][]*zone
	visits     map[*ssa.BasicBlock]int
	ip         *interproc
	retB       map[int]ibound
	callB      map[ssa.CallInstruction][]ibound
	lenRel     map[ssa.CallInstruction]map[[2]int]ibound // (arg index, param index) → bounds of len(arg) - len(param), slices only
	obRes      map[ssa.Instruction]*boundOb
	untracked  map[*ssa.Alloc]bool // locals whose address escapes: never tracked
	wr         map[*types.Var]bool
	incomplete bool
	smallSeen  map[ssa.Value]bool
	li         *LockInfo             // must-held locks (for guarded-field memory)
	guardOf    map[*types.Var]string // guarded field → name of its mutex field (C16's frozen table)
	want       map[ssa.Instruction]bool
	sums       map[*ssa.Function]boolSummary
	// local variables captured by closures (any call may change them)
	captured []*ssa.Alloc
}

const atomZero = 0

func (pv *prover) atom(key string) int {
	if id, ok := pv.atoms[key]; ok {
		return id
	}
	id := len(pv.names)
	pv.atoms[key] = id
	pv.names = append(pv.names, key)
	return id
}

func isIntType(T types.Type) bool {
	b, ok := T.Underlying().(*types.Basic)
	return ok && b.Info()&types.IsInteger != 0
}

func isUnsigned(T types.Type) bool {
	b, ok := T.Underlying().(*types.Basic)
	return ok && b.Info()&types.IsUnsigned != 0
}

func intBits(T types.Type, arch32 bool) int {
	b, ok := T.Underlying().(*types.Basic)
	if !ok {
		return 64
	}
	switch b.Kind() {
	case types.Int8, types.Uint8:
		return 8
	case types.Int16, types.Uint16:
		return 16
	case types.Int32, types.Uint32:
		return 32
	case types.Int64, types.Uint64:
		return 64
	case types.Int, types.Uint, types.Uintptr:
		if arch32 {
			return 32
		}
		return 64
	}
	return 64
}

// stableLoad: v is a load of a struct field that nothing in this function (or
// its static module callees) stores to; loads of the same field expression
// then denote one value.
func (pv *prover) stableLoad(v ssa.Value) (string, bool) {
	u, ok := v.(*ssa.UnOp)
	if !ok || u.Op != token.MUL {
		return "", false
	}
	fa, ok := u.X.(*ssa.FieldAddr)
	if !ok {
		return "", false
	}
	fv := fieldVar(fa.X.Type(), fa.Field)
	if fv == nil || !pv.stable[fv] {
		return "", false
	}
	// the base must itself be stable: a parameter, a captured variable, or a stable load
	switch b := fa.X.(type) {
	case *ssa.Parameter, *ssa.FreeVar:
		return "fld:" + Term(v), true
	case *ssa.UnOp:
		if _, ok := pv.stableLoad(b); ok {
			return "fld:" + Term(v), true
		}
		if _, ok := b.X.(*ssa.FreeVar); ok {
			return "fld:" + Term(v), true
		}
	}
	return "", false
}

// valKey is the identity of a non-normalisable value.
func (pv *prover) valKey(v ssa.Value) string {
	if k, ok := pv.stableLoad(v); ok {
		return k
	}
	return "v:" + v.Name()
}

// intTerm: v = atom + off.
func (pv *prover) intTerm(v ssa.Value) (int, int64, bool) {
	switch x := v.(type) {
	case *ssa.Const:
		if x.Value == nil || x.Value.Kind() != constant.Int {
			return 0, 0, false
		}
		if i, ok := constant.Int64Val(x.Value); ok && i > -zInf/2 && i < zInf/2 {
			return atomZero, i, true
		}
		if u, ok := constant.Uint64Val(x.Value); ok && u < uint64(zInf/2) {
			return atomZero, int64(u), true
		}
		return 0, 0, false
	case *ssa.BinOp:
		if !isIntType(x.Type()) {
			return 0, 0, false
		}
		if x.Op == token.ADD || x.Op == token.SUB {
			// x ± c is "the atom of x, shifted" only when the machine addition cannot wrap: x is a length, a
			// counter, an index found in a slice, a narrow value … (smallValue).  For anything else — a number
			// that came off the wire, a parameter — the sum is a value of its own: MaxInt + 1 is negative.
			if c, ok := x.Y.(*ssa.Const); ok && c.Value != nil && pv.smallValue(x.X, 0) {
				if k, ok := constant.Int64Val(c.Value); ok && k > -1<<40 && k < 1<<40 {
					if a, off, ok := pv.intTerm(x.X); ok {
						if x.Op == token.SUB {
							k = -k
						}
						return a, off + k, true
					}
				}
			}
			if c, ok := x.X.(*ssa.Const); ok && c.Value != nil && x.Op == token.ADD && pv.smallValue(x.Y, 0) {
				if k, ok := constant.Int64Val(c.Value); ok && k > -1<<40 && k < 1<<40 {
					if a, off, ok := pv.intTerm(x.Y); ok {
						return a, off + k, true
					}
				}
			}
			// the same expression computed twice is the same machine value
			if _, isK := x.Y.(*ssa.Const); isK {
				if _, stable := pv.termStable(x.X); stable {
					return pv.atom("sum:" + Term(x)), 0, true
				}
			}
		}
		return pv.atom(pv.valKey(v)), 0, true
	case *ssa.Call:
		if b, ok := x.Call.Value.(*ssa.Builtin); ok && (b.Name() == "len" || b.Name() == "cap") && b.Name() == "len" {
			return pv.lenTerm(x.Call.Args[0])
		}
		if !isIntType(x.Type()) {
			return 0, 0, false
		}
		return pv.atom(pv.valKey(v)), 0, true
	case *ssa.Convert:
		if isIntType(x.Type()) && isIntType(x.X.Type()) {
			// same value when it fits; the fit is an obligation of its own (checked separately)
			return pv.intTerm(x.X)
		}
		if isIntType(x.Type()) {
			return pv.atom(pv.valKey(v)), 0, true
		}
		return 0, 0, false
	case *ssa.ChangeType:
		return pv.intTerm(x.X)
	}
	if !isIntType(v.Type()) {
		return 0, 0, false
	}
	return pv.atom(pv.valKey(v)), 0, true
}

// lenTerm: len(v) = atom + off.
func (pv *prover) lenTerm(v ssa.Value) (int, int64, bool) {
	switch x := v.(type) {
	case *ssa.Const:
		if x.Value != nil && x.Value.Kind() == constant.String {
			return atomZero, int64(len(constant.StringVal(x.Value))), true
		}
		if x.Value == nil {
			return atomZero, 0, true // nil slice
		}
	case *ssa.Slice:
		// len = high - low
		var ha int
		var hoff int64
		var hok bool
		if x.High != nil {
			ha, hoff, hok = pv.intTerm(x.High)
		} else {
			ha, hoff, hok = pv.lenOfOperand(x.X)
		}
		if hok {
			if x.Low == nil {
				return ha, hoff, true
			}
			if la, loff, lok := pv.intTerm(x.Low); lok && la == atomZero {
				return ha, hoff - loff, true
			}
		}
	case *ssa.MakeSlice:
		return pv.intTerm(x.Len)
	case *ssa.Convert: // string <-> []byte
		return pv.lenTerm(x.X)
	case *ssa.ChangeType:
		return pv.lenTerm(x.X)
	case *ssa.Call:
		if b, ok := x.Call.Value.(*ssa.Builtin); ok && b.Name() == "append" {
			// append(a, b...) with b a literal of k elements
			if els := varargElems(x.Call.Args[1]); len(els) > 0 {
				if a, off, ok := pv.lenTerm(x.Call.Args[0]); ok {
					return a, off + int64(len(els)), true
				}
			}
		}
		if sc := x.Call.StaticCallee(); sc != nil {
			switch sc.String() {
			case "(reflect.Value).Bytes":
				// b := reflect.MakeSlice(t, n, n).Bytes()
				if mk, ok := x.Call.Args[0].(*ssa.Call); ok {
					if sc2 := mk.Call.StaticCallee(); sc2 != nil && sc2.String() == "reflect.MakeSlice" {
						return pv.intTerm(mk.Call.Args[1])
					}
				}
			}
		}
	case *ssa.Alloc:
		if at, ok := deref(x.Type()).Underlying().(*types.Array); ok {
			return atomZero, at.Len(), true
		}
	}
	// arrays by value / pointer to array
	T := v.Type().Underlying()
	if pt, ok := T.(*types.Pointer); ok {
		T = pt.Elem().Underlying()
	}
	if at, ok := T.(*types.Array); ok {
		return atomZero, at.Len(), true
	}
	return pv.atom("len:" + pv.valKey(v)), 0, true
}

func (pv *prover) lenOfOperand(v ssa.Value) (int, int64, bool) { return pv.lenTerm(v) }

// ------------------------------------------------------------ transfer

func (pv *prover) assume(z *zone, v ssa.Value, val bool) {
	if z.bot {
		return
	}
	switch x := v.(type) {
	case *ssa.UnOp:
		if x.Op == token.NOT {
			pv.assume(z, x.X, !val)
		}
		return
	case *ssa.Const:
		if x.Value != nil && x.Value.Kind() == constant.Bool && constant.BoolVal(x.Value) != val {
			z.bot = true
		}
		return
	case *ssa.Call:
		if key, ok := pv.pureBoolKey(x); ok {
			if old, known := z.bf[key]; known && old != val {
				z.bot = true
				return
			}
			if z.bf == nil {
				z.bf = map[string]bool{}
			}
			z.bf[key] = val
		}
		if val {
			pv.applySummary(z, x, 0)
		}
		return
	case *ssa.Extract:
		if call, ok := x.Tuple.(*ssa.Call); ok && val {
			pv.applySummary(z, call, x.Index)
		}
		if nx, ok := x.Tuple.(*ssa.Next); ok && val && x.Index == 0 {
			if rg, ok := nx.Iter.(*ssa.Range); ok {
				if _, isMap := rg.X.Type().Underlying().(*types.Map); isMap && pv.mapNeverInserted(rg.X) {
					// a range over a map that is not inserted into yields at most len(map) entries
					g := pv.atom("iter:" + rg.Name())
					if la, lo, ok := pv.lenTerm(rg.X); ok {
						z.grow(len(pv.names))
						z.add(g, la, lo)
					}
				}
			}
		}
		return
	case *ssa.BinOp:
		op := x.Op
		if !val {
			switch op {
			case token.LSS:
				op = token.GEQ
			case token.LEQ:
				op = token.GTR
			case token.GTR:
				op = token.LEQ
			case token.GEQ:
				op = token.LSS
			case token.EQL:
				op = token.NEQ
			case token.NEQ:
				op = token.EQL
			default:
				return
			}
		}
		if !isIntType(x.X.Type()) {
			// slice/string == nil comparisons give len facts
			if k, ok := x.Y.(*ssa.Const); ok && k.Value == nil && op == token.EQL {
				if _, isSl := x.X.Type().Underlying().(*types.Slice); isSl {
					if a, off, ok := pv.lenTerm(x.X); ok {
						z.grow(len(pv.names))
						z.add(a, atomZero, -off)
						z.add(atomZero, a, off)
					}
				}
			}
			return
		}
		a, ao, ok1 := pv.intTerm(x.X)
		b, bo, ok2 := pv.intTerm(x.Y)
		if !ok1 || !ok2 {
			return
		}
		z.grow(len(pv.names))
		// (a+ao) op (b+bo)
		switch op {
		case token.LSS: // a - b <= bo - ao - 1
			z.add(a, b, bo-ao-1)
		case token.LEQ:
			z.add(a, b, bo-ao)
		case token.GTR:
			z.add(b, a, ao-bo-1)
		case token.GEQ:
			z.add(b, a, ao-bo)
		case token.EQL:
			z.add(a, b, bo-ao)
			z.add(b, a, ao-bo)
		case token.NEQ:
			if ao == bo {
				z.addNeq(a, b)
			} else if a == b {
				// same atom, different offsets: always unequal, nothing to learn
			} else {
				// a + ao != b + bo : only usable when offsets equal; try to express via bounds
				if z.le(a, b, bo-ao) && !z.le(a, b, bo-ao-1) && ao == bo {
					z.addNeq(a, b)
				} else if z.d[a*z.n+b] == bo-ao {
					z.add(a, b, bo-ao-1)
				} else if z.d[b*z.n+a] == ao-bo {
					z.add(b, a, ao-bo-1)
				}
			}
		}
	}
}

// pureBoolKey: a call of a small module method without arguments whose body
// only reads fields that are stable in the current function, on a stable
// receiver: two such calls return the same value, so the branch outcome of one
// decides the other (used as trace-partitioning key).
func (pv *prover) pureBoolKey(call *ssa.Call) (string, bool) {
	sc := call.Call.StaticCallee()
	if sc == nil || !pv.p.inModule(sc) || sc.Signature.Recv() == nil || len(call.Call.Args) != 1 || len(sc.Blocks) == 0 || len(sc.Blocks) > 8 {
		return "", false
	}
	if bt, ok := sc.Signature.Results().At(0).Type().Underlying().(*types.Basic); !ok || bt.Kind() != types.Bool || sc.Signature.Results().Len() != 1 {
		return "", false
	}
	for _, b := range sc.Blocks {
		for _, in := range b.Instrs {
			switch x := in.(type) {
			case *ssa.Store, *ssa.MapUpdate, *ssa.Send, *ssa.Go, *ssa.Defer, *ssa.Call, *ssa.Select, *ssa.Panic, *ssa.Lookup, *ssa.Index, *ssa.IndexAddr:
				return "", false
			case *ssa.UnOp:
				if x.Op == token.ARROW {
					return "", false
				}
				if x.Op == token.MUL {
					fa, ok := x.X.(*ssa.FieldAddr)
					if !ok {
						return "", false
					}
					if _, isPar := fa.X.(*ssa.Parameter); !isPar {
						return "", false
					}
					fv := fieldVar(fa.X.Type(), fa.Field)
					if fv == nil || !pv.stable[fv] {
						// the field may not even be accessed in this function: then nothing here writes it
						if fv == nil || pv.writes()[fv] {
							return "", false
						}
					}
				}
			}
		}
	}
	// the receiver: address of a stable field of a parameter, a parameter, or a stable load
	recv := call.Call.Args[0]
	switch r := recv.(type) {
	case *ssa.Parameter, *ssa.FreeVar:
	case *ssa.FieldAddr:
		if _, isPar := r.X.(*ssa.Parameter); !isPar {
			if _, ok := pv.stableLoad(r.X); !ok {
				return "", false
			}
		}
		// receiver is &p.f: the callee reads p.f.<fields>; p.f itself must not be overwritten here
		fv := fieldVar(r.X.Type(), r.Field)
		if fv == nil || pv.writes()[fv] {
			return "", false
		}
	case *ssa.UnOp:
		if _, ok := pv.stableLoad(r); !ok {
			return "", false
		}
	default:
		return "", false
	}
	return Term(call), true
}

func (pv *prover) writes() map[*types.Var]bool {
	if pv.wr == nil {
		pv.wr = map[*types.Var]bool{}
		for fv := range transFieldRW(pv.p, EnclosingTop(pv.fn), 3).writes {
			pv.wr[fv] = true
		}
	}
	return pv.wr
}

// define adds the facts that hold by definition of the value computed by in.
// effects: stores to local variables and calls that may modify them.
func (pv *prover) effects(z *zone, in ssa.Instruction) {
	forgetName := func(name string) {
		for _, k := range []string{"cur:" + name, "len:cur:" + name} {
			if id, ok := pv.atoms[k]; ok && id < z.n {
				z.forget(id)
				if strings.HasPrefix(k, "len:") {
					z.add(atomZero, id, 0)
				}
			}
		}
	}
	// forgetCur: the variable itself and every field of it
	forgetCur := func(al *ssa.Alloc) {
		forgetName(al.Name())
		pre := al.Name() + "."
		for k := range pv.atoms {
			if strings.HasPrefix(k, "cur:"+pre) {
				forgetName(strings.TrimPrefix(k, "cur:"))
			} else if strings.HasPrefix(k, "len:cur:"+pre) {
				forgetName(strings.TrimPrefix(k, "len:cur:"))
			}
		}
	}
	forgetGuarded := func(only *types.Var) {
		for k, id := range pv.atoms {
			if id >= z.n {
				continue
			}
			isG := strings.HasPrefix(k, "cur:gf:") || strings.HasPrefix(k, "len:cur:gf:")
			if !isG {
				continue
			}
			if only != nil && !strings.HasSuffix(k, "#"+only.Name()) {
				continue
			}
			z.forget(id)
			if strings.HasPrefix(k, "len:") {
				z.add(atomZero, id, 0)
			}
		}
	}
	switch x := in.(type) {
	case *ssa.Store:
		if fa, isFA := x.Addr.(*ssa.FieldAddr); isFA {
			if fv := fieldVar(fa.X.Type(), fa.Field); fv != nil {
				if _, guarded := pv.guardOf[fv]; guarded {
					forgetGuarded(fv)
				}
			}
		}
		name, ok := pv.localVarName(x.Addr)
		if !ok {
			return
		}
		forgetName(name)
		T := x.Val.Type()
		if isIntType(T) {
			if a, off, ok := pv.intTerm(x.Val); ok {
				c := pv.atom("cur:" + name)
				z.grow(len(pv.names))
				z.add(c, a, off)
				z.add(a, c, -off)
			}
		} else if _, isSl := T.Underlying().(*types.Slice); isSl || isStringType(T) {
			if a, off, ok := pv.lenTerm(x.Val); ok {
				c := pv.atom("len:cur:" + name)
				z.grow(len(pv.names))
				z.add(c, a, off)
				z.add(a, c, -off)
			}
		}
	case ssa.CallInstruction:
		if _, isB := x.Common().Value.(*ssa.Builtin); isB {
			return
		}
		// a call may store to a guarded field (or release its lock): forget what it can reach
		switch sc := x.Common().StaticCallee(); {
		case sc == nil || x.Common().IsInvoke():
			forgetGuarded(nil)
		case lockOpIs(in):
			forgetGuarded(nil)
		case pv.p.inModule(sc):
			if hasOpaqueCalls(pv.p, sc, 3, map[*ssa.Function]bool{}) {
				forgetGuarded(nil)
			} else {
				for fv := range transFieldRW(pv.p, sc, 3).writes {
					if _, guarded := pv.guardOf[fv]; guarded {
						forgetGuarded(fv)
					}
				}
			}
		default:
			// library code reaches module state only through function values it is handed
			for _, a := range x.Common().Args {
				switch a.Type().Underlying().(type) {
				case *types.Signature, *types.Interface:
					forgetGuarded(nil)
				}
			}
		}
		// variables whose address is handed to the callee, or that some closure captured, may change
		for _, a := range x.Common().Args {
			if al, ok := a.(*ssa.Alloc); ok {
				forgetCur(al)
			}
			if mi, ok := a.(*ssa.MakeInterface); ok {
				if al, ok := mi.X.(*ssa.Alloc); ok {
					forgetCur(al)
				}
			}
			if fa, ok := a.(*ssa.FieldAddr); ok {
				if al, ok := fa.X.(*ssa.Alloc); ok {
					forgetCur(al)
				}
			}
		}
		if x.Common().IsInvoke() {
			if al, ok := x.Common().Value.(*ssa.Alloc); ok {
				forgetCur(al)
			}
		}
		for _, al := range pv.captured {
			forgetCur(al)
		}
	}
}

func (pv *prover) define(z *zone, in ssa.Instruction) {
	pv.effects(z, in)
	v, ok := in.(ssa.Value)
	if !ok {
		return
	}
	// a value with its own atom is (re)defined here: forget what a previous iteration knew
	forgetKey := func(k string) {
		if id, ok := pv.atoms[k]; ok && id < z.n {
			z.forget(id)
		}
	}
	if _, stable := pv.stableLoad(v); !stable {
		forgetKey("v:" + v.Name())
		forgetKey("len:v:" + v.Name())
	}
	nonneg := func(a int, off int64) {
		z.grow(len(pv.names))
		z.add(atomZero, a, off) // 0 - a <= off  i.e. a + off >= 0
	}
	// lengths are non-negative
	switch v.Type().Underlying().(type) {
	case *types.Slice:
		if a, off, ok := pv.lenTerm(v); ok && a != atomZero {
			nonneg(a, off)
		}
	case *types.Basic:
		if b := v.Type().Underlying().(*types.Basic); b.Info()&types.IsString != 0 {
			if a, off, ok := pv.lenTerm(v); ok && a != atomZero {
				nonneg(a, off)
			}
		}
	}
	if isIntType(v.Type()) && isUnsigned(v.Type()) {
		if a, off, ok := pv.intTerm(v); ok && a != atomZero {
			nonneg(a, off)
		}
	}
	// local variables kept in memory (address taken / captured): `cur:<alloc>` is the variable's current value
	curKey := func(a *ssa.Alloc, isLen bool) string {
		if isLen {
			return "len:cur:" + a.Name()
		}
		return "cur:" + a.Name()
	}
	_ = curKey
	equate := func(a int, aoff int64, b int, boff int64) {
		z.grow(len(pv.names))
		z.add(a, b, boff-aoff)
		z.add(b, a, aoff-boff)
	}
	switch x := in.(type) {
	case *ssa.UnOp:
		if x.Op == token.MUL {
			// a field guarded by a mutex that is held here: the field is a variable nobody else writes while we hold the
			// lock; its value lasts until a store to that field, any call, or the unlock (all handled in effects)
			if key, ok := pv.guardedLoadKey(x, in); ok {
				T := x.Type()
				if isIntType(T) {
					if a, off, ok := pv.intTerm(x); ok {
						equate(a, off, pv.atom("cur:"+key), 0)
					}
				} else if _, isSl := T.Underlying().(*types.Slice); isSl || isStringType(T) {
					if a, off, ok := pv.lenTerm(x); ok {
						c := pv.atom("len:cur:" + key)
						equate(a, off, c, 0)
						z.add(atomZero, c, 0)
					}
				}
			}
			if name, ok := pv.localVarName(x.X); ok {
				T := x.Type()
				if isIntType(T) {
					if a, off, ok := pv.intTerm(x); ok {
						equate(a, off, pv.atom("cur:"+name), 0)
					}
				} else if _, isSl := T.Underlying().(*types.Slice); isSl || isStringType(T) {
					if a, off, ok := pv.lenTerm(x); ok {
						equate(a, off, pv.atom("len:cur:"+name), 0)
					}
				}
			}
		}
	case *ssa.Store:
	}
	switch x := in.(type) {
	case *ssa.Slice:
		// the result is no longer than its operand (when expressible)
		if ra, roff, ok := pv.lenTerm(x); ok {
			if oa, ooff, ok2 := pv.lenTerm(x.X); ok2 && x.High == nil {
				z.grow(len(pv.names))
				z.add(ra, oa, ooff-roff) // len(r) <= len(x)
			}
		}
	case *ssa.Call:
		sc := x.Call.StaticCallee()
		if b, isB := x.Call.Value.(*ssa.Builtin); isB {
			switch b.Name() {
			case "copy", "len", "cap":
				if a, off, ok := pv.intTerm(x); ok && a != atomZero {
					nonneg(a, off)
				}
			case "append":
				// len(result) >= len(first)
				if ra, roff, ok := pv.lenTerm(x); ok {
					if fa, foff, ok2 := pv.lenTerm(x.Call.Args[0]); ok2 {
						z.grow(len(pv.names))
						z.add(fa, ra, roff-foff)
					}
				}
			}
			return
		}
		if sc == nil {
			if x.Call.IsInvoke() && isIntType(x.Type()) {
				switch x.Call.Method.FullName() {
				case "(reflect.Type).NumIn", "(reflect.Type).NumOut", "(reflect.Type).NumField", "(reflect.Type).NumMethod", "(reflect.Type).Len":
					// documented counts: never negative
					if a, off, ok := pv.intTerm(x); ok {
						nonneg(a, off)
					}
				}
			}
			return
		}
		switch sc.String() {
		case "(reflect.Value).Len", "(reflect.Value).NumField", "(reflect.Value).Cap", "(*bytes.Buffer).Len", "(*strings.Builder).Len":
			if a, off, ok := pv.intTerm(x); ok {
				nonneg(a, off)
			}
		}
		if isIntType(x.Type()) && pv.p.inModule(sc) {
			if rb := pv.ip.resultBounds(sc, 0); rb.set {
				if a, off, ok := pv.intTerm(x); ok && a != atomZero {
					z.grow(len(pv.names))
					if rb.okLo {
						z.add(atomZero, a, off-rb.lo)
					}
					if rb.okHi {
						z.add(a, atomZero, rb.hi-off)
					}
				}
			}
		}
		switch sc.String() {
		case "bytes.IndexByte", "strings.IndexByte", "bytes.Index", "strings.Index", "bytes.IndexRune", "strings.IndexRune", "bytes.LastIndexByte", "strings.LastIndexByte":
			// -1 <= r <= len(s) - 1
			if a, off, ok := pv.intTerm(x); ok {
				nonneg(a, off+1)
				if la, loff, ok2 := pv.lenTerm(x.Call.Args[0]); ok2 {
					z.grow(len(pv.names))
					z.add(a, la, loff-off-1)
				}
			}
		case "(*encoding/base64.Encoding).DecodedLen", "(*encoding/base64.Encoding).EncodedLen":
			if a, off, ok := pv.intTerm(x); ok {
				nonneg(a, off)
			}
		case "(encoding/binary.bigEndian).Uint16":
			if a, off, ok := pv.intTerm(x); ok {
				nonneg(a, off)
				z.add(a, atomZero, 65535-off)
			}
		case "(encoding/binary.bigEndian).Uint32":
			if a, off, ok := pv.intTerm(x); ok {
				nonneg(a, off)
				z.add(a, atomZero, 4294967295-off)
			}
		}
	case *ssa.Extract:
		call, ok := x.Tuple.(*ssa.Call)
		if !ok {
			return
		}
		sc := call.Call.StaticCallee()
		if sc == nil {
			return
		}
		if isIntType(x.Type()) && pv.p.inModule(sc) {
			if rb := pv.ip.resultBounds(sc, x.Index); rb.set {
				if a, off, ok := pv.intTerm(x); ok && a != atomZero {
					z.grow(len(pv.names))
					if rb.okLo {
						z.add(atomZero, a, off-rb.lo)
					}
					if rb.okHi {
						z.add(a, atomZero, rb.hi-off)
					}
				}
			}
		}
		switch sc.String() {
		case "strconv.ParseUint":
			if x.Index == 0 {
				if a, off, ok := pv.intTerm(x); ok {
					nonneg(a, off)
					if k, isK := call.Call.Args[2].(*ssa.Const); isK {
						bits := k.Int64()
						if bits > 0 && bits < 62 {
							z.add(a, atomZero, (int64(1)<<uint(bits))-1-off)
						}
					}
				}
			}
		case "(*encoding/base64.Encoding).Decode":
			// n, err := enc.Decode(dst, src): 0 <= n <= len(dst)   (documented contract)
			if x.Index == 0 {
				if a, off, ok := pv.intTerm(x); ok {
					nonneg(a, off)
					if la, loff, ok2 := pv.lenTerm(call.Call.Args[1]); ok2 {
						z.grow(len(pv.names))
						z.add(a, la, loff-off)
					}
				}
			}
		case "io.ReadFull", "(io.Reader).Read":
			if x.Index == 0 {
				if a, off, ok := pv.intTerm(x); ok {
					nonneg(a, off)
				}
			}
		}
	case *ssa.BinOp:
		if !isIntType(x.Type()) {
			return
		}
		a, off, ok := pv.intTerm(x)
		if !ok {
			return
		}
		switch x.Op {
		case token.ADD, token.SUB:
			// a sum that intTerm kept as a value of its own (its operand is not structurally small): when the
			// zone bounds the operand on the side the constant moves it to, the machine sum is the mathematical one
			if k, isK := x.Y.(*ssa.Const); isK && k.Value != nil && !pv.smallValue(x.X, 0) && off == 0 {
				if kv, ok := constant.Int64Val(k.Value); ok && kv > -1<<40 && kv < 1<<40 {
					if x.Op == token.SUB {
						kv = -kv
					}
					if xa, xoff, ok := pv.intTerm(x.X); ok && xa != a {
						b := pv.boundsOf(z, x.X)
						lim := int64(1) << 62
						if pv.ip.arch32 {
							lim = 1 << 30
						}
						safe := (kv >= 0 && b.okHi && b.hi < lim) || (kv < 0 && b.okLo && b.lo > -lim)
						if !safe && kv >= 0 {
							// bounded by a length: x + k <= len(..) <= MaxInt
							z.grow(len(pv.names))
							for li, nm := range pv.names {
								if strings.HasPrefix(nm, "len:") && li < z.n && xa < z.n {
									if d := z.d[xa*z.n+li]; d < zInf && d+xoff+kv <= 0 {
										safe = true
										break
									}
								}
							}
						}
						if safe {
							z.grow(len(pv.names))
							// a = xa + xoff + kv
							z.add(a, xa, xoff+kv)
							z.add(xa, a, -(xoff + kv))
						}
					}
				}
			}
		case token.AND:
			// x & c  in [0, c] for a non-negative constant mask
			for _, opnd := range []ssa.Value{x.X, x.Y} {
				if k, isK := opnd.(*ssa.Const); isK && k.Value != nil {
					if m, ok := constant.Int64Val(k.Value); ok && m >= 0 {
						nonneg(a, off)
						z.add(a, atomZero, m-off)
					}
				}
			}
		case token.REM:
			if k, isK := x.Y.(*ssa.Const); isK && k.Value != nil {
				if m, ok := constant.Int64Val(k.Value); ok && m > 0 {
					z.grow(len(pv.names))
					z.add(a, atomZero, m-1-off)
					if isUnsigned(x.Type()) {
						nonneg(a, off)
					}
				}
			}
		}
	case *ssa.Convert:
		// narrowing conversions of unsigned bytes etc.: range of the target type when small
		if isIntType(x.Type()) && !isIntType(x.X.Type()) {
			return
		}
	case *ssa.UnOp:
		if x.Op == token.MUL && isIntType(x.Type()) {
			bits := intBits(x.Type(), false)
			if bits <= 16 {
				if a, off, ok := pv.intTerm(x); ok {
					if isUnsigned(x.Type()) {
						nonneg(a, off)
						z.add(a, atomZero, (int64(1)<<uint(bits))-1-off)
					}
				}
			}
		}
	case *ssa.Range:
		if _, isMap := x.X.Type().Underlying().(*types.Map); isMap {
			g := pv.atom("iter:" + x.Name())
			z.grow(len(pv.names))
			z.forget(g)
			z.add(g, atomZero, 0)
			z.add(atomZero, g, 0)
		}
	case *ssa.Next:
		// ghost: number of `next` calls on a map range (the last one may report !ok)
		if rg, ok := x.Iter.(*ssa.Range); ok {
			if _, isMap := rg.X.Type().Underlying().(*types.Map); isMap {
				g := pv.atom("iter:" + rg.Name())
				z.grow(len(pv.names))
				z.shift(g, 1)
			}
		}
	}
}

// mapUnmodifiedInLoop: the function contains no insertion into a map of the
// same type as m while ranging (deleting never lengthens the iteration; an
// insertion may or may not be visited, so the `len` bound would not hold).
func (pv *prover) mapNeverInserted(m ssa.Value) bool {
	for _, f := range WithAnons(EnclosingTop(pv.fn)) {
		for _, b := range f.Blocks {
			for _, in := range b.Instrs {
				if mu, ok := in.(*ssa.MapUpdate); ok && types.Identical(mu.Map.Type(), m.Type()) {
					return false
				}
			}
		}
	}
	// calls inside the loop could insert too: require that the function's callees do not update maps of that type
	for _, b := range pv.fn.Blocks {
		for _, in := range b.Instrs {
			ci, ok := in.(ssa.CallInstruction)
			if !ok {
				continue
			}
			if _, isB := ci.Common().Value.(*ssa.Builtin); isB {
				continue
			}
			sc := ci.Common().StaticCallee()
			if sc == nil {
				if inLoop(b) {
					return false
				}
				continue
			}
			if !inLoop(b) {
				continue
			}
			if !pv.p.inModule(sc) {
				continue // a library cannot reach this unexported map
			}
			for _, f := range WithAnons(sc) {
				for _, bb := range f.Blocks {
					for _, i2 := range bb.Instrs {
						if mu, ok := i2.(*ssa.MapUpdate); ok && types.Identical(mu.Map.Type(), m.Type()) {
							return false
						}
						if c2, ok := i2.(ssa.CallInstruction); ok {
							if _, isB := c2.Common().Value.(*ssa.Builtin); !isB && (c2.Common().StaticCallee() == nil || pv.p.inModule(c2.Common().StaticCallee())) {
								return false // deeper module calls: give up
							}
						}
					}
				}
			}
		}
	}
	return true
}

// ------------------------------------------------- boolean-result summaries

// boolSummary: "result k is true implies len(recv.<field>) >= c".
type boolSummary map[int][]struct {
	field string
	min   int64
}

func (pv *prover) summaryOf(callee *ssa.Function) boolSummary {
	if s, ok := pv.sums[callee]; ok {
		return s
	}
	s := boolSummary{}
	pv.sums[callee] = s
	if callee.Blocks == nil || callee.Signature.Recv() == nil || len(callee.Blocks) > 12 {
		return s
	}
	recv := vname(callee.Params[0])
	for _, b := range callee.Blocks {
		ret, ok := b.Instrs[len(b.Instrs)-1].(*ssa.Return)
		if !ok {
			continue
		}
		_ = ret
	}
	// result k may be true only on paths where guard len(recv.f) > c holds: use PrunedCanReach
	for k := 0; k < callee.Signature.Results().Len(); k++ {
		if bt, ok := callee.Signature.Results().At(k).Type().Underlying().(*types.Basic); !ok || bt.Kind() != types.Bool {
			continue
		}
		// candidate facts: comparisons len(recv.f) > c appearing as branch conditions
		for _, b := range callee.Blocks {
			ifi, ok := b.Instrs[len(b.Instrs)-1].(*ssa.If)
			if !ok {
				continue
			}
			bo, ok := ifi.Cond.(*ssa.BinOp)
			if !ok || (bo.Op != token.GTR && bo.Op != token.GEQ) {
				continue
			}
			t := Term(bo.X)
			if !strings.HasPrefix(t, "len("+recv+".") {
				continue
			}
			kc, isK := bo.Y.(*ssa.Const)
			if !isK {
				continue
			}
			min := kc.Int64()
			if bo.Op == token.GTR {
				min++
			}
			field := strings.TrimSuffix(strings.TrimPrefix(t, "len("+recv+"."), ")")
			if strings.ContainsAny(field, ".([") {
				continue
			}
			// with the condition false, can a return with result k == true be reached?
			canTrue := false
			for _, rb := range callee.Blocks {
				ret, isR := rb.Instrs[len(rb.Instrs)-1].(*ssa.Return)
				if !isR {
					continue
				}
				rt := Term(ret.Results[k])
				if rt == "false" {
					continue
				}
				if r, _ := PrunedCanReach(callee, nil, []Assume{{regexpQuote(Term(bo)), false}}, func(in ssa.Instruction) bool { return in == ret }, nil); r {
					// reachable: is the value then forced false?  (phi with only-false on those paths is not tracked: be conservative)
					if ph, isPhi := ret.Results[k].(*ssa.Phi); isPhi {
						// all phi edges that are not literally false must come from blocks guarded by the condition
						allGuarded := true
						for i, e := range ph.Edges {
							if Term(e) == "false" {
								continue
							}
							pred := ph.Block().Preds[i]
							last := pred.Instrs[len(pred.Instrs)-1]
							if !HasGuard(last, regexpQuote(Term(bo))+"==true") {
								allGuarded = false
							}
						}
						if allGuarded {
							continue
						}
					}
					canTrue = true
				}
			}
			if !canTrue {
				s[k] = append(s[k], struct {
					field string
					min   int64
				}{field, min})
			}
		}
	}
	return s
}

func (pv *prover) applySummary(z *zone, call *ssa.Call, idx int) {
	sc := call.Call.StaticCallee()
	if sc == nil || !pv.p.inModule(sc) || sc.Signature.Recv() == nil || len(call.Call.Args) == 0 {
		return
	}
	sum := pv.summaryOf(originOf(sc))
	for _, f := range sum[idx] {
		// len(<receiver term>.<field>) >= min  — only when that field load is stable here
		recvT := stripAmp(Term(call.Call.Args[0]))
		key := "len:fld:" + recvT + "." + f.field
		if id, ok := pv.atoms[key]; ok {
			z.grow(len(pv.names))
			z.add(atomZero, id, -f.min)
		} else {
			id := pv.atom(key)
			z.grow(len(pv.names))
			z.add(atomZero, id, -f.min)
		}
	}
}

// ------------------------------------------------------------ fixpoint

func (pv *prover) edgeState(from, to *ssa.BasicBlock, out *zone) *zone {
	if out == nil || out.bot {
		return nil
	}
	z := out.clone()
	if len(from.Instrs) > 0 {
		if ifi, ok := from.Instrs[len(from.Instrs)-1].(*ssa.If); ok {
			if from.Succs[0] == to && from.Succs[1] != to {
				pv.assume(z, ifi.Cond, true)
			} else if from.Succs[1] == to && from.Succs[0] != to {
				pv.assume(z, ifi.Cond, false)
			}
		}
	}
	if z.bot {
		return nil
	}
	// phi assignments (simultaneous): forget targets, then equate with the incoming values
	idx := -1
	for i, p := range to.Preds {
		if p == from {
			idx = i
		}
	}
	type asg struct {
		t      int
		a      int
		off    int64
		isLen  bool
		target ssa.Value
	}
	var as []asg
	targets := map[int]bool{}
	for _, in := range to.Instrs {
		ph, ok := in.(*ssa.Phi)
		if !ok {
			break
		}
		if idx < 0 {
			continue
		}
		e := ph.Edges[idx]
		if isIntType(ph.Type()) {
			t := pv.atom("v:" + ph.Name())
			targets[t] = true
			if a, off, ok := pv.intTerm(e); ok {
				as = append(as, asg{t, a, off, false, ph})
			} else {
				as = append(as, asg{t, -1, 0, false, ph})
			}
		} else if _, isSl := ph.Type().Underlying().(*types.Slice); isSl || isStringType(ph.Type()) {
			t := pv.atom("len:v:" + ph.Name())
			targets[t] = true
			if a, off, ok := pv.lenTerm(e); ok {
				as = append(as, asg{t, a, off, true, ph})
			} else {
				as = append(as, asg{t, -1, 0, true, ph})
			}
		}
	}
	z.grow(len(pv.names))
	// exact transfer of the parallel assignment  t_k := a_k + off_k  in the zone domain
	old := z.clone()
	for t := range targets {
		z.forget(t)
	}
	n := old.n
	for _, a := range as {
		if a.a < 0 {
			if a.isLen {
				z.add(atomZero, a.t, 0)
			}
			continue
		}
		// against atoms that are not assigned
		for o := 0; o < n; o++ {
			if targets[o] {
				continue
			}
			if old.d[a.a*n+o] < zInf {
				z.add(a.t, o, addSat(old.d[a.a*n+o], a.off))
			}
			if old.d[o*n+a.a] < zInf {
				z.add(o, a.t, addSat(old.d[o*n+a.a], -a.off))
			}
		}
		// against the other assigned atoms (their NEW values)
		for _, b := range as {
			if b.a < 0 || b.t == a.t {
				continue
			}
			if old.d[a.a*n+b.a] < zInf {
				z.add(a.t, b.t, addSat(old.d[a.a*n+b.a], a.off-b.off))
			}
		}
		if a.isLen {
			z.add(atomZero, a.t, 0)
		}
	}
	// disequalities between new values
	for k := range old.neq {
		for _, a := range as {
			for _, b := range as {
				if a.a >= 0 && b.a >= 0 && a.off == b.off && ((a.a == k[0] && b.a == k[1]) || (a.a == k[1] && b.a == k[0])) && a.t != b.t {
					z.addNeq(a.t, b.t)
				}
			}
			if a.a >= 0 && a.off == 0 {
				other := -1
				if a.a == k[0] && !targets[k[1]] {
					other = k[1]
				} else if a.a == k[1] && !targets[k[0]] {
					other = k[0]
				}
				if other >= 0 {
					z.addNeq(a.t, other)
				}
			}
		}
	}
	if z.bot {
		return nil
	}
	return z
}

func isStringType(T types.Type) bool {
	b, ok := T.Underlying().(*types.Basic)
	return ok && b.Info()&types.IsString != 0
}

const maxPartitions = 6

// mergeInto joins st into the partition list (states with the same boolean
// facts are joined; beyond maxPartitions everything is merged).
func mergeInto(list []*zone, st *zone) ([]*zone, bool) {
	for i, z := range list {
		if z.sig() == st.sig() {
			j := joinZone(z, st)
			o := z.clone()
			o.grow(j.n)
			if eqZone(o, j) {
				return list, false
			}
			list[i] = j
			return list, true
		}
	}
	list = append(list, st.clone())
	if len(list) > maxPartitions {
		m := list[0]
		for _, z := range list[1:] {
			m = joinZone(m, z)
		}
		return []*zone{m}, true
	}
	return list, true
}

func (pv *prover) transferBlock(b *ssa.BasicBlock, st *zone, record bool) *zone {
	cur := st.clone()
	cur.grow(len(pv.names))
	for _, in := range b.Instrs {
		if record && pv.want[in] {
			pv.record(in, cur)
		}
		if _, isPhi := in.(*ssa.Phi); isPhi {
			continue
		}
		pv.define(cur, in)
		cur.grow(len(pv.names))
	}
	return cur
}

func (pv *prover) run() {
	fn := pv.fn
	if len(fn.Blocks) == 0 {
		return
	}
	pv.ins = map[*ssa.BasicBlock][]*zone{}
	pv.visits = map[*ssa.BasicBlock]int{}
	// pre-create atoms so that the zones have a stable size
	for _, b := range fn.Blocks {
		for _, in := range b.Instrs {
			if v, ok := in.(ssa.Value); ok {
				if isIntType(v.Type()) {
					pv.intTerm(v)
				} else if _, isSl := v.Type().Underlying().(*types.Slice); isSl || isStringType(v.Type()) {
					pv.lenTerm(v)
				}
			}
			for _, op := range in.Operands(nil) {
				if *op == nil {
					continue
				}
				if isIntType((*op).Type()) {
					pv.intTerm(*op)
				}
			}
			if al, ok := in.(*ssa.Alloc); ok {
				T := deref(al.Type())
				if isIntType(T) {
					pv.atom("cur:" + al.Name())
				} else if _, isSl := T.Underlying().(*types.Slice); isSl || isStringType(T) {
					pv.atom("len:cur:" + al.Name())
				}
			}
			if fa, ok := in.(*ssa.FieldAddr); ok {
				if name, ok := pv.localVarName(fa); ok {
					if fv := fieldVar(fa.X.Type(), fa.Field); fv != nil {
						if isIntType(fv.Type()) {
							pv.atom("cur:" + name)
						} else if _, isSl := fv.Type().Underlying().(*types.Slice); isSl || isStringType(fv.Type()) {
							pv.atom("len:cur:" + name)
						}
					}
				}
			}
		}
	}
	for _, par := range fn.Params {
		if _, isSl := par.Type().Underlying().(*types.Slice); isSl || isStringType(par.Type()) {
			pv.lenTerm(par)
		}
	}
	entry := newZone(len(pv.names))
	for i, par := range fn.Params {
		if _, isSl := par.Type().Underlying().(*types.Slice); isSl || isStringType(par.Type()) {
			if a, off, ok := pv.lenTerm(par); ok && a != atomZero {
				entry.add(atomZero, a, off)
			}
		}
		if isIntType(par.Type()) {
			if a, off, ok := pv.intTerm(par); ok && a != atomZero {
				if isUnsigned(par.Type()) {
					entry.add(atomZero, a, off)
				}
				if lo, hi, okLo, okHi := pv.ip.paramBounds(fn, i); okLo || okHi {
					if okLo {
						entry.add(atomZero, a, off-lo)
					}
					if okHi {
						entry.add(a, atomZero, hi-off)
					}
				}
			}
		}
	}
	for k, id := range pv.atoms {
		if strings.HasPrefix(k, "len:") {
			entry.grow(len(pv.names))
			entry.add(atomZero, id, 0)
		}
	}
	pv.ins[fn.Blocks[0]] = []*zone{entry}
	work := []*ssa.BasicBlock{fn.Blocks[0]}
	inWork := map[*ssa.BasicBlock]bool{fn.Blocks[0]: true}
	steps := 0
	for len(work) > 0 && steps < 6000 {
		steps++
		b := work[0]
		work = work[1:]
		inWork[b] = false
		for _, st := range pv.ins[b] {
			if st == nil || st.bot {
				continue
			}
			cur := pv.transferBlock(b, st, false)
			for _, s := range b.Succs {
				es := pv.edgeState(b, s, cur)
				if es == nil {
					continue
				}
				es.grow(len(pv.names))
				pv.visits[s]++
				if pv.visits[s] > 40 {
					// widening against the partition with the same boolean facts
					for _, o := range pv.ins[s] {
						if o.sig() == es.sig() {
							j := joinZone(o, es)
							o2 := o.clone()
							o2.grow(j.n)
							for i := range j.d {
								if j.d[i] > o2.d[i] {
									j.d[i] = zInf
								}
							}
							es = j
						}
					}
				}
				nl, changed := mergeInto(pv.ins[s], es)
				pv.ins[s] = nl
				if changed && !inWork[s] {
					work = append(work, s)
					inWork[s] = true
				}
			}
		}
	}
	if len(work) > 0 {
		// the fixpoint was not reached: nothing computed so far is an invariant
		pv.incomplete = true
	}
	// final pass: record the facts before the instructions of interest (join over partitions)
	for _, b := range fn.Blocks {
		for _, st := range pv.ins[b] {
			if st == nil || st.bot {
				continue
			}
			pv.transferBlock(b, st, true)
		}
	}
}

// ------------------------------------------------------------ obligations

type boundOb struct {
	Fn     *ssa.Function
	Instr  ssa.Instruction
	Kind   string // index, slice, make, convert, div, assert
	Expr   string
	Proved bool
	Why    string
	Detail string
}

func stableFields(p *Program, fn *ssa.Function) map[*types.Var]bool {
	w := transFieldRW(p, fn, 3).writes
	stable := map[*types.Var]bool{}
	for _, f := range WithAnons(EnclosingTop(fn)) {
		for _, fa := range FieldAccesses(f) {
			if _, wr := w[fa.Field]; !wr {
				stable[fa.Field] = true
			}
		}
	}
	// also writes in the enclosing function's other closures
	w2 := transFieldRW(p, EnclosingTop(fn), 3).writes
	for fv := range w2 {
		delete(stable, fv)
	}
	return stable
}

type ibound struct {
	lo, hi     int64
	okLo, okHi bool
	set        bool
}

func (b *ibound) join(o ibound) {
	if !b.set {
		*b = o
		b.set = true
		return
	}
	if !o.okLo || (b.okLo && o.lo < b.lo) {
		b.lo, b.okLo = o.lo, o.okLo && b.okLo
	}
	if !o.okHi || (b.okHi && o.hi > b.hi) {
		b.hi, b.okHi = o.hi, o.okHi && b.okHi
	}
	b.okLo = b.okLo && o.okLo
	b.okHi = b.okHi && o.okHi
}

func (pv *prover) boundsOf(z *zone, v ssa.Value) ibound {
	r := ibound{set: true}
	a, off, ok := pv.intTerm(v)
	if !ok {
		return r
	}
	z.grow(len(pv.names))
	if a == atomZero {
		return ibound{lo: off, hi: off, okLo: true, okHi: true, set: true}
	}
	if d := z.d[a*z.n+atomZero]; d < zInf {
		r.hi, r.okHi = d+off, true
	}
	if d := z.d[atomZero*z.n+a]; d < zInf {
		r.lo, r.okLo = -d+off, true
	}
	return r
}

// interproc: memoised per-function analyses; integer result bounds of module
// callees and parameter bounds established by every call site in the module.
type interproc struct {
	p      *Program
	arch32 bool
	memo   map[*ssa.Function]*prover
	busy   map[*ssa.Function]bool
}

func newInterproc(p *Program, arch32 bool) *interproc {
	return &interproc{p: p, arch32: arch32, memo: map[*ssa.Function]*prover{}, busy: map[*ssa.Function]bool{}}
}

func (ip *interproc) analyse(fn *ssa.Function) *prover {
	if pv, ok := ip.memo[fn]; ok {
		return pv
	}
	if ip.busy[fn] || len(fn.Blocks) == 0 {
		return nil
	}
	ip.busy[fn] = true
	defer delete(ip.busy, fn)
	pv := newProver(ip, fn)
	pv.run()
	ip.memo[fn] = pv
	return pv
}

// resultBounds: bounds of integer result k of a module function over all its returns.
func (ip *interproc) resultBounds(callee *ssa.Function, k int) ibound {
	if callee == nil || !ip.p.inModule(callee) || len(callee.Blocks) == 0 || len(callee.Blocks) > 400 {
		return ibound{}
	}
	pv := ip.analyse(callee)
	if pv == nil || pv.incomplete {
		return ibound{}
	}
	return pv.retB[k]
}

// paramBounds: bounds of integer parameter i of fn established by every call
// edge of the VTA call graph into fn (none: unknown).  For exported functions
// this bounds what the module itself passes; a library user calling the
// function directly is not wire input.
func (ip *interproc) paramBounds(fn *ssa.Function, i int) (lo, hi int64, okLo, okHi bool) {
	if fn.Parent() != nil || i >= len(fn.Params) {
		return
	}
	n := ip.p.CallGraph().Nodes[fn]
	if n == nil || len(n.In) == 0 {
		return
	}
	var acc ibound
	for _, e := range n.In {
		if e.Site == nil || !ip.p.inModule(e.Caller.Func) {
			return 0, 0, false, false
		}
		if _, isGo := e.Site.(*ssa.Go); isGo {
			// arguments are evaluated at the go statement: same treatment
		}
		caller := e.Caller.Func
		if ip.busy[caller] {
			return 0, 0, false, false
		}
		pv := ip.analyse(caller)
		if pv == nil || pv.incomplete {
			return 0, 0, false, false
		}
		idx := i
		if e.Site.Common().IsInvoke() {
			idx = i - 1
		}
		cb, ok := pv.callB[e.Site]
		if !ok {
			// unreachable call site establishes nothing and constrains nothing
			continue
		}
		if idx < 0 || idx >= len(cb) {
			return 0, 0, false, false
		}
		acc.join(cb[idx])
	}
	if !acc.set {
		return
	}
	return acc.lo, acc.hi, acc.okLo, acc.okHi
}

func newProver(ip *interproc, fn *ssa.Function) *prover {
	p := ip.p
	pv := &prover{p: p, ip: ip, fn: fn, atoms: map[string]int{"0": 0}, names: []string{"0"}, want: map[ssa.Instruction]bool{}, sums: map[*ssa.Function]boolSummary{},
		retB: map[int]ibound{}, callB: map[ssa.CallInstruction][]ibound{}, obRes: map[ssa.Instruction]*boundOb{}, untracked: map[*ssa.Alloc]bool{}}
	pv.stable = stableFields(p, fn)
	pv.guardOf = map[*types.Var]string{}
	for _, g := range guardedBy {
		if p.byShort[g.short] == nil {
			continue
		}
		func() {
			defer func() { _ = recover() }()
			pv.guardOf[p.Field(g.short, g.typ, g.field)] = g.mutex
		}()
	}
	for _, b := range fn.Blocks {
		for _, in := range b.Instrs {
			if mc, ok := in.(*ssa.MakeClosure); ok {
				sync := closureOnlyCalledHere(mc)
				for _, bd := range mc.Bindings {
					if al, ok := bd.(*ssa.Alloc); ok {
						pv.captured = append(pv.captured, al)
						if !sync {
							pv.untracked[al] = true
						}
					}
				}
			}
			if st, ok := in.(*ssa.Store); ok {
				if al, ok := st.Val.(*ssa.Alloc); ok {
					pv.untracked[al] = true
				}
			}
			if g, ok := in.(*ssa.Go); ok {
				for _, a := range g.Call.Args {
					if al, ok := a.(*ssa.Alloc); ok {
						pv.untracked[al] = true
					}
				}
			}
			switch x := in.(type) {
			case *ssa.IndexAddr, *ssa.Index, *ssa.Slice, *ssa.MakeSlice:
				pv.want[in] = true
			case *ssa.Convert:
				if isIntType(x.Type()) && isIntType(x.X.Type()) {
					pv.want[in] = true
				}
			case *ssa.BinOp:
				if (x.Op == token.QUO || x.Op == token.REM) && isIntType(x.Type()) {
					pv.want[in] = true
				}
			case *ssa.TypeAssert:
				if !x.CommaOk {
					pv.want[in] = true
				}
			case *ssa.Return:
				pv.want[in] = true
			case ssa.CallInstruction:
				pv.want[in] = true
			}
		}
	}
	return pv
}

// closureOnlyCalledHere: the closure value is only invoked (called or
// deferred) by the function that creates it, never stored, passed or started
// as a goroutine.
func closureOnlyCalledHere(mc *ssa.MakeClosure) bool {
	refs := mc.Referrers()
	if refs == nil {
		return false
	}
	for _, r := range *refs {
		switch x := r.(type) {
		case *ssa.Call:
			if x.Call.Value != mc {
				return false
			}
		case *ssa.Defer:
			if x.Call.Value != mc {
				return false
			}
		case *ssa.DebugRef:
		default:
			return false
		}
	}
	return true
}

// record is called in the final pass with the state before `in` for every partition.
func (pv *prover) record(in ssa.Instruction, z *zone) {
	switch x := in.(type) {
	case *ssa.Return:
		for k, r := range x.Results {
			if isIntType(r.Type()) {
				b := pv.retB[k]
				b.join(pv.boundsOf(z, r))
				pv.retB[k] = b
			}
		}
		return
	case ssa.CallInstruction:
		args := x.Common().Args
		cb, seen := pv.callB[x]
		if !seen {
			cb = make([]ibound, len(args))
		}
		for i, a := range args {
			if isIntType(a.Type()) {
				cb[i].join(pv.boundsOf(z, a))
			} else {
				cb[i].set = true
			}
		}
		pv.callB[x] = cb
		// length of a slice argument relative to the length of a slice parameter of this function
		for i, a := range args {
			if _, isSl := a.Type().Underlying().(*types.Slice); !isSl {
				continue
			}
			for j, par := range pv.fn.Params {
				if _, isSl := par.Type().Underlying().(*types.Slice); !isSl {
					continue
				}
				la, loff, ok1 := pv.lenTerm(a)
				lp, poff, ok2 := pv.lenTerm(par)
				if !ok1 || !ok2 {
					continue
				}
				z.grow(len(pv.names))
				r := ibound{set: true}
				if la == lp {
					r.lo, r.hi, r.okLo, r.okHi = loff-poff, loff-poff, true, true
				} else {
					if d := z.d[la*z.n+lp]; d < zInf { // la - lp <= d
						r.hi, r.okHi = d+loff-poff, true
					}
					if d := z.d[lp*z.n+la]; d < zInf { // lp - la <= d
						r.lo, r.okLo = -d+loff-poff, true
					}
				}
				if pv.lenRel == nil {
					pv.lenRel = map[ssa.CallInstruction]map[[2]int]ibound{}
				}
				if pv.lenRel[x] == nil {
					pv.lenRel[x] = map[[2]int]ibound{}
				}
				cur := pv.lenRel[x][[2]int{i, j}]
				cur.join(r)
				pv.lenRel[x][[2]int{i, j}] = cur
			}
		}
		if _, isVal := in.(ssa.Value); !isVal {
			return
		}
	}
	ob := pv.checkOb(in, z)
	if ob == nil {
		return
	}
	if pv.incomplete {
		ob.Proved, ob.Detail = false, "the abstract interpretation of this function did not reach a fixpoint within its step budget"
	}
	if old := pv.obRes[in]; old != nil {
		if !ob.Proved && old.Proved {
			pv.obRes[in] = ob
		}
		return
	}
	pv.obRes[in] = ob
}

func showB(z *zone, a int, off int64) string {
	lo, hi := "-inf", "+inf"
	if a < z.n {
		if z.d[a*z.n+atomZero] < zInf {
			hi = fmt.Sprint(z.d[a*z.n+atomZero] + off)
		}
		if z.d[atomZero*z.n+a] < zInf {
			lo = fmt.Sprint(-z.d[atomZero*z.n+a] + off)
		}
	}
	return "[" + lo + "," + hi + "]"
}

// checkOb decides one obligation in one abstract state.
func (pv *prover) checkOb(in ssa.Instruction, z *zone) *boundOb {
	fn := pv.fn
	arch32 := pv.ip.arch32
	z.grow(len(pv.names))
	part := ""
	if len(z.bf) > 0 {
		part = " [when " + z.sig() + "]"
	}
	switch x := in.(type) {
	case *ssa.IndexAddr, *ssa.Index:
		var X, I ssa.Value
		if ia, ok := x.(*ssa.IndexAddr); ok {
			X, I = ia.X, ia.Index
		} else {
			X, I = x.(*ssa.Index).X, x.(*ssa.Index).Index
		}
		if _, isMap := X.Type().Underlying().(*types.Map); isMap {
			return nil
		}
		ob := &boundOb{Fn: fn, Instr: in, Kind: "index", Expr: Term(X) + "[" + Term(I) + "]"}
		ia, io, ok1 := pv.intTerm(I)
		la, lo, ok2 := pv.lenTerm(X)
		if ok1 && ok2 {
			z.grow(len(pv.names))
			lower := z.le(atomZero, ia, io)
			upper := z.le(ia, la, lo-io-1)
			ob.Proved = lower && upper
			ob.Why = "zone"
			if !ob.Proved {
				ob.Detail = fmt.Sprintf("need 0 <= index < len; index in %s, len in %s, index-len <= %s; lower=%v upper=%v%s", showB(z, ia, io), showB(z, la, lo), boundStr(z, ia, la, io-lo), lower, upper, part)
			}
		} else {
			ob.Detail = "operands not expressible"
		}
		return ob
	case *ssa.Slice:
		if _, isStr := x.X.Type().Underlying().(*types.Basic); isStr && x.Low == nil && x.High == nil {
			return nil
		}
		if x.Low == nil && x.High == nil && x.Max == nil {
			return nil // a[:] cannot fail
		}
		ob := &boundOb{Fn: fn, Instr: in, Kind: "slice", Expr: Term(x)}
		la, lo, okL := pv.lenTerm(x.X)
		_, isSlice := x.X.Type().Underlying().(*types.Slice)
		lowA, lowO, okLow := atomZero, int64(0), true
		if x.Low != nil {
			lowA, lowO, okLow = pv.intTerm(x.Low)
		}
		hiA, hiO, okHi := la, lo, okL
		if x.High != nil {
			hiA, hiO, okHi = pv.intTerm(x.High)
		}
		if x.Max != nil {
			ob.Detail = "3-index slice not modelled"
			return ob
		}
		if okL && okLow && okHi {
			z.grow(len(pv.names))
			c1 := z.le(atomZero, lowA, lowO)
			c2 := z.le(lowA, hiA, hiO-lowO)
			// for slices the limit is cap >= len: proving against len is stronger (sound)
			c3 := x.High == nil || z.le(hiA, la, lo-hiO)
			_ = isSlice
			ob.Proved = c1 && c2 && c3
			ob.Why = "zone"
			if !ob.Proved {
				ob.Detail = fmt.Sprintf("need 0 <= low <= high <= len; low in %s, high in %s, len in %s; 0<=low:%v low<=high:%v high<=len:%v%s", showB(z, lowA, lowO), showB(z, hiA, hiO), showB(z, la, lo), c1, c2, c3, part)
			}
		} else {
			ob.Detail = "operands not expressible"
		}
		return ob
	case *ssa.MakeSlice:
		if _, isK := x.Len.(*ssa.Const); isK {
			return nil
		}
		ob := &boundOb{Fn: fn, Instr: in, Kind: "make", Expr: Term(x)}
		if a, off, ok := pv.intTerm(x.Len); ok {
			ob.Proved = z.le(atomZero, a, off)
			ob.Why = "zone"
			if !ob.Proved {
				ob.Detail = "need len >= 0; len in " + showB(z, a, off) + part
			}
		}
		return ob
	case *ssa.Convert:
		src, dst := x.X.Type(), x.Type()
		if !isIntType(src) || !isIntType(dst) {
			return nil
		}
		sb, db := intBits(src, arch32), intBits(dst, arch32)
		su, du := isUnsigned(src), isUnsigned(dst)
		if _, isK := x.X.(*ssa.Const); isK {
			return nil
		}
		if (su == du && db >= sb) || (su && !du && db > sb) {
			return nil
		}
		ob := &boundOb{Fn: fn, Instr: in, Kind: "convert", Expr: Term(x)}
		a, off, ok := pv.intTerm(x.X)
		if ok {
			var max int64
			if du {
				if db >= 63 {
					max = zInf - 1
				} else {
					max = (int64(1) << uint(db)) - 1
				}
			} else {
				if db >= 64 {
					max = zInf - 1
				} else {
					max = (int64(1) << uint(db-1)) - 1
				}
			}
			upper := z.le(a, atomZero, max-off)
			if (du && db >= sb) || (!du && !su && db >= sb) || db >= 64 && du {
				upper = true
			}
			lower := true
			if du && !su {
				lower = z.le(atomZero, a, off)
			} else if !du && !su && db < sb {
				lower = z.le(atomZero, a, off+max+1)
			}
			ob.Proved = upper && lower
			ob.Why = "zone"
			if !ob.Proved {
				ob.Detail = fmt.Sprintf("%s → %s may not preserve the value: source in %s%s", src, dst, showB(z, a, off), part)
			}
		}
		return ob
	case *ssa.BinOp:
		if !((x.Op == token.QUO || x.Op == token.REM) && isIntType(x.Type())) {
			return nil
		}
		if _, isK := x.Y.(*ssa.Const); isK {
			return nil
		}
		ob := &boundOb{Fn: fn, Instr: in, Kind: "div", Expr: Term(x)}
		if a, off, ok := pv.intTerm(x.Y); ok {
			ob.Proved = z.le(atomZero, a, off-1) || z.le(a, atomZero, -off-1)
			ob.Why = "zone"
			if !ob.Proved {
				ob.Detail = "divisor may be zero: " + showB(z, a, off) + part
			}
		}
		return ob
	case *ssa.TypeAssert:
		if x.CommaOk {
			return nil
		}
		return &boundOb{Fn: fn, Instr: in, Kind: "assert", Expr: Term(x), Detail: "single-result type assertion panics when the dynamic type differs"}
	}
	return nil
}

// proveFunc enumerates and tries to discharge the bounds obligations of fn.
func (ip *interproc) proveFunc(fn *ssa.Function) []boundOb {
	if len(fn.Blocks) == 0 {
		return nil
	}
	pv := ip.analyse(fn)
	if pv == nil {
		return nil
	}
	var obs []boundOb
	for _, b := range fn.Blocks {
		for _, in := range b.Instrs {
			if !pv.want[in] {
				continue
			}
			if ob := pv.obRes[in]; ob != nil {
				if !ob.Proved && recoveredAt(fn, in) {
					ob.Proved, ob.Why, ob.Detail = true, "recovered", ""
				}
				obs = append(obs, *ob)
				continue
			}
			// never reached by the abstract execution: is it an obligation kind at all?
			if ob := pv.checkOb(in, newZone(len(pv.names))); ob != nil {
				ob.Proved, ob.Why, ob.Detail = true, "unreachable", ""
				obs = append(obs, *ob)
			}
		}
	}
	sort.SliceStable(obs, func(i, j int) bool { return obs[i].Instr.Pos() < obs[j].Instr.Pos() })
	return obs
}

// recoveredAt: in is dominated by a `defer func() { ... recover() ... }()` of
// its own function, so a run-time panic at in is converted, not propagated.
func recoveredAt(fn *ssa.Function, in ssa.Instruction) bool {
	for _, b := range fn.Blocks {
		for _, d := range b.Instrs {
			df, ok := d.(*ssa.Defer)
			if !ok {
				continue
			}
			var cl *ssa.Function
			switch v := df.Call.Value.(type) {
			case *ssa.MakeClosure:
				cl, _ = v.Fn.(*ssa.Function)
			case *ssa.Function:
				cl = v
			}
			if cl == nil || cl.Parent() != fn || !callsRecover(cl) {
				continue
			}
			if Dominates(d, in) {
				return true
			}
		}
	}
	return false
}

func callsRecover(fn *ssa.Function) bool {
	for _, b := range fn.Blocks {
		for _, in := range b.Instrs {
			if c, ok := in.(*ssa.Call); ok {
				if bi, ok := c.Call.Value.(*ssa.Builtin); ok && bi.Name() == "recover" {
					return true
				}
			}
		}
	}
	return false
}

func boundStr(z *zone, a, b int, adj int64) string {
	if z == nil || a >= z.n || b >= z.n || z.d[a*z.n+b] >= zInf {
		return "+inf"
	}
	return fmt.Sprint(z.d[a*z.n+b] + adj)
}

// localVarName: addr denotes a local variable kept in memory — an Alloc, or a
// field of a struct allocated in this function.
func (pv *prover) localVarName(addr ssa.Value) (string, bool) {
	switch x := addr.(type) {
	case *ssa.Alloc:
		if pv.untracked[x] {
			return "", false
		}
		return x.Name(), true
	case *ssa.FieldAddr:
		if al, ok := x.X.(*ssa.Alloc); ok && !pv.untracked[al] {
			return al.Name() + "." + fieldName(x.X.Type(), x.Field), true
		}
	}
	return "", false
}

// guardedLoadKey: load is a read of a field that C16's frozen table says is
// guarded by a sibling mutex, and that mutex is certainly held at the load.
func (pv *prover) guardedLoadKey(load *ssa.UnOp, in ssa.Instruction) (string, bool) {
	fa, ok := load.X.(*ssa.FieldAddr)
	if !ok {
		return "", false
	}
	fv := fieldVar(fa.X.Type(), fa.Field)
	if fv == nil {
		return "", false
	}
	mu, guarded := pv.guardOf[fv]
	if !guarded {
		return "", false
	}
	if pv.li == nil {
		pv.li = LocksInherit(pv.fn)
	}
	base := stripAmp(Term(fa.X))
	if _, held := pv.li.Held(in)[base+"."+mu]; !held {
		return "", false
	}
	return "gf:" + base + "#" + fv.Name(), true
}

func lockOpIs(in ssa.Instruction) bool {
	_, ok := lockOpOf(in)
	return ok
}

// hasOpaqueCalls: fn or a module callee (to the given depth) makes a call whose target is not a statically known
// module function or builtin (interface method, function value, library function that is handed a function), takes or
// releases a lock, or the depth bound is hit: its effect on module state is not known.
func hasOpaqueCalls(p *Program, fn *ssa.Function, depth int, seen map[*ssa.Function]bool) bool {
	if seen[fn] {
		return false
	}
	seen[fn] = true
	for _, f := range WithAnons(fn) {
		for _, cs := range Calls(f) {
			cc := cs.Common()
			if _, isB := cc.Value.(*ssa.Builtin); isB {
				continue
			}
			if _, isLock := lockOpOf(cs.Instr); isLock {
				continue // a callee pairs its own locks (C16-D2); it does not release the caller's
			}
			sc := cc.StaticCallee()
			if sc == nil || cc.IsInvoke() {
				return true
			}
			if !p.inModule(sc) {
				for _, a := range cc.Args {
					switch a.Type().Underlying().(type) {
					case *types.Signature, *types.Interface:
						return true
					}
				}
				continue
			}
			if depth <= 0 || hasOpaqueCalls(p, sc, depth-1, seen) {
				return true
			}
		}
	}
	return false
}

// smallValue: a value whose magnitude is structurally far from the ends of its type, so that adding or
// subtracting a source constant cannot wrap: lengths, loop counters that start at a constant and move by
// constants, positions found inside a slice, narrow integers widened, masked or reduced values.
func (pv *prover) smallValue(v ssa.Value, depth int) bool {
	if depth > 6 {
		return false
	}
	switch x := v.(type) {
	case *ssa.Const:
		if x.Value == nil || x.Value.Kind() != constant.Int {
			return false
		}
		k, ok := constant.Int64Val(x.Value)
		return ok && k > -1<<40 && k < 1<<40
	case *ssa.Call:
		if b, ok := x.Call.Value.(*ssa.Builtin); ok {
			switch b.Name() {
			case "len", "cap", "copy":
				return true
			case "min", "max":
				for _, a := range x.Call.Args {
					if !pv.smallValue(a, depth+1) {
						return false
					}
				}
				return true
			}
			return false
		}
		if sc := x.Call.StaticCallee(); sc != nil {
			switch sc.String() {
			case "bytes.IndexByte", "strings.IndexByte", "bytes.Index", "strings.Index", "bytes.IndexRune", "strings.IndexRune", "bytes.LastIndexByte", "strings.LastIndexByte", "bytes.IndexAny", "strings.IndexAny",
				"(*encoding/base64.Encoding).DecodedLen", "(*encoding/base64.Encoding).EncodedLen", "(reflect.Value).Len", "(reflect.Value).NumField", "(*bytes.Buffer).Len":
				return true
			}
			// a module callee whose result is bounded on both sides
			if pv.p.inModule(sc) && isIntType(x.Type()) {
				if rb := pv.ip.resultBounds(sc, 0); rb.set && rb.okLo && rb.okHi && rb.lo > -1<<40 && rb.hi < 1<<40 {
					return true
				}
			}
		}
		if x.Call.IsInvoke() {
			switch x.Call.Method.FullName() {
			case "(reflect.Type).NumIn", "(reflect.Type).NumOut", "(reflect.Type).NumField", "(reflect.Type).Len":
				return true
			}
		}
		return false
	case *ssa.Extract:
		if call, ok := x.Tuple.(*ssa.Call); ok && call.Call.StaticCallee() != nil {
			switch call.Call.StaticCallee().String() {
			case "(*encoding/base64.Encoding).Decode", "io.ReadFull", "(io.Reader).Read":
				return x.Index == 0
			}
		}
		return false
	case *ssa.Phi:
		if _, ok := loopIndex(x); ok {
			return true
		}
		if pv.smallSeen == nil {
			pv.smallSeen = map[ssa.Value]bool{}
		}
		if pv.smallSeen[x] {
			return true // a cycle through the phi itself: decided by its other edges
		}
		pv.smallSeen[x] = true
		defer delete(pv.smallSeen, x)
		for _, e := range x.Edges {
			if !pv.smallValue(e, depth+1) {
				return false
			}
		}
		return true
	case *ssa.BinOp:
		switch x.Op {
		case token.ADD, token.SUB:
			if _, ok := loopIndex(x); ok {
				return true
			}
			if k, isK := x.Y.(*ssa.Const); isK && pv.smallValue(k, depth+1) {
				return pv.smallValue(x.X, depth+1)
			}
			return depth < 3 && pv.smallValue(x.X, depth+1) && pv.smallValue(x.Y, depth+1)
		case token.AND:
			for _, o := range []ssa.Value{x.X, x.Y} {
				if k, isK := o.(*ssa.Const); isK && pv.smallValue(k, depth+1) {
					if kv, _ := constant.Int64Val(k.Value); kv >= 0 {
						return true
					}
				}
			}
		case token.REM:
			if k, isK := x.Y.(*ssa.Const); isK {
				return pv.smallValue(k, depth+1)
			}
		}
		return false
	case *ssa.Convert:
		if !isIntType(x.X.Type()) || !isIntType(x.Type()) {
			return false
		}
		bits := intBits(x.X.Type(), pv.ip.arch32)
		if bits <= 16 || (bits == 32 && !pv.ip.arch32 && intBits(x.Type(), false) == 64) {
			return true
		}
		return intBits(x.Type(), pv.ip.arch32) >= bits && pv.smallValue(x.X, depth+1)
	case *ssa.ChangeType:
		return pv.smallValue(x.X, depth+1)
	case *ssa.UnOp:
		if x.Op == token.MUL {
			// a local counter kept in memory: every store to it is small
			if al, ok := x.X.(*ssa.Alloc); ok && al.Referrers() != nil && !pv.untracked[al] {
				if pv.smallSeen == nil {
					pv.smallSeen = map[ssa.Value]bool{}
				}
				if pv.smallSeen[al] {
					return true
				}
				pv.smallSeen[al] = true
				defer delete(pv.smallSeen, al)
				n := 0
				for _, r := range *al.Referrers() {
					if st, ok := r.(*ssa.Store); ok && st.Addr == ssa.Value(al) {
						n++
						if !pv.smallValue(st.Val, depth+1) {
							return false
						}
					}
				}
				return n > 0
			}
			if isIntType(x.Type()) && intBits(x.Type(), pv.ip.arch32) <= 16 {
				return true
			}
		}
	}
	return false
}

// termStable: the value's term denotes the same machine value wherever it is computed in this function
// (built from parameters, stable field loads, constants and pure arithmetic).
func (pv *prover) termStable(v ssa.Value) (string, bool) {
	switch x := v.(type) {
	case *ssa.Parameter, *ssa.Const:
		return Term(v), true
	case *ssa.UnOp:
		if _, ok := pv.stableLoad(x); ok {
			return Term(v), true
		}
		return "", false
	case *ssa.BinOp:
		if _, ok := pv.termStable(x.X); ok {
			if _, ok2 := pv.termStable(x.Y); ok2 {
				return Term(v), true
			}
		}
	case *ssa.Convert:
		return pv.termStable(x.X)
	case *ssa.Call:
		if b, ok := x.Call.Value.(*ssa.Builtin); ok && b.Name() == "len" {
			return pv.termStable(x.Call.Args[0])
		}
	}
	return "", false
}

// lenRelAtCall: bounds of len(args[argIdx]) - len(params[parIdx]) at the call, over every abstract state that
// reaches it (okLo/okHi false: unbounded on that side; set false: the call is never reached).
func (ip *interproc) lenRelAtCall(fn *ssa.Function, call ssa.CallInstruction, argIdx, parIdx int) ibound {
	pv := ip.analyse(fn)
	if pv == nil || pv.incomplete {
		return ibound{}
	}
	if m, ok := pv.lenRel[call]; ok {
		if r, ok := m[[2]int{argIdx, parIdx}]; ok {
			return r
		}
	}
	return ibound{}
}
