package main

// C06 — every connection end is reported exactly once and leaves nothing behind.

import (
	"fmt"
	"go/constant"
	"go/token"
	"go/types"
	"sort"
	"strconv"
	"strings"

	"golang.org/x/tools/go/ssa"
)

func init() {
	register(&PropertySpec{
		ID:         "C06",
		NotDecided: "exactly-once reporting under every cut point of the byte stream and every combination of causes, and what the peer observes; decided are: disconnect fan-out only inside the owner's Once, cleanup must-pass-through, the Engine.IO session removed on close, connection close closing all its sockets with the same reason, admission re-checking liveness, and the reason constant passed at each close site.",
		Run:        runC06,
	})
}

// insideOnce: fn is (nested in) the closure passed to Do on `once` inside owner.
func onceBodyOf(owner *ssa.Function, once string) *ssa.Function {
	for _, f := range WithAnons(owner) {
		for _, ob := range OnceBodies(f) {
			if ob.Once == once && ob.Body != nil {
				return ob.Body
			}
		}
	}
	return nil
}

func isNestedIn(fn, outer *ssa.Function) bool {
	for f := fn; f != nil; f = f.Parent() {
		if f == outer {
			return true
		}
	}
	return false
}

func runC06(c *Ctx) {
	p := c.P

	c.Rule("C06-D1", "once-guarded fan-out: disconnect(ing) handlers, the connection's socket sweep, the Engine.IO close callbacks and every transport's OnClose callback run only inside the owner's Once.Do body", 14)
	{
		owner := p.Fn("sio", "serverSocket.onClose")
		body := onceBodyOf(owner, "s.closeOnce")
		if body == nil {
			c.Ob("C06-D1", "sio.serverSocket.onClose/once", owner.Pos(), false, "onClose has no s.closeOnce.Do(func) body")
		} else {
			n := 0
			for _, fn := range p.SrcFuncs() {
				for _, cs := range CallsTo(Calls(fn), `\(\*sio\.handlerStore\[T\]\)\.forEach`) {
					recv := stripAmp(Term(cs.Common().Args[0]))
					if recv != "s.disconnectHandlers" && recv != "s.disconnectingHandlers" {
						continue
					}
					if !strings.Contains(FuncName(EnclosingTop(fn)), "sio.serverSocket)") {
						continue
					}
					n++
					c.Ob("C06-D1", recv+".forEach@"+FuncName(fn), cs.Pos(), isNestedIn(fn, body), recv+".forEach is called outside the closeOnce body of serverSocket.onClose: handlers could run twice or for a socket that never connected")
				}
			}
			c.Ob("C06-D1", "sio.serverSocket.onClose/fan-out-sites", owner.Pos(), n == 2, fmt.Sprintf("%d disconnect fan-out sites (expected 2: disconnecting and disconnect)", n))
			// onClose does nothing outside the once (besides logging)
			for _, cs := range Calls(owner) {
				if strings.Contains(cs.Name, "Debugger") || strings.Contains(cs.Name, ".Do") || strings.Contains(cs.Name, "Log") {
					continue
				}
				c.Ob("C06-D1", "sio.serverSocket.onClose/outside-once@"+shortCallee(cs.Name), cs.Pos(), false, cs.Name+" is called by onClose outside closeOnce.Do")
			}
		}
	}
	{
		owner := p.Fn("sio", "serverConn.onClose")
		body := onceBodyOf(owner, "c.closeOnce")
		if body == nil {
			c.Ob("C06-D1", "sio.serverConn.onClose/once", owner.Pos(), false, "serverConn.onClose has no c.closeOnce.Do(func) body")
		} else {
			sw := CallsTo(Calls(body), `\(\*sio\.serverSocketStore\)\.getAndRemoveAll`)
			cl := CallsTo(Calls(body), `\(\*sio\.serverSocket\)\.onClose`)
			c.Ob("C06-D1", "sio.serverConn.onClose/sweep-in-once", owner.Pos(), len(sw) == 1 && len(cl) == 1 && inLoop(cl[0].Instr.Block()), "the once body must take all sockets (getAndRemoveAll) and call onClose on each")
		}
	}
	for _, a := range []struct{ short, typ, once, cb string }{
		{"eio", "serverSocket", "s.closeOnce", `\(eio\.CloseCallback\)|dyn:.*OnClose.*`},
		{"eio", "clientSocket", "s.closeOnce", `dyn:.*OnClose.*`},
	} {
		owner := p.Fn(a.short, a.typ+".close")
		body := onceBodyOf(owner, a.once)
		name := a.short + "." + a.typ + ".close"
		if body == nil {
			c.Ob("C06-D1", name+"/once", owner.Pos(), false, "close has no closeOnce.Do body")
			continue
		}
		n := 0
		for _, fn := range WithAnons(owner) {
			for _, cs := range Calls(fn) {
				if !strings.Contains(cs.Name, "OnClose") {
					continue
				}
				n++
				c.Ob("C06-D1", name+"/OnClose-in-once", cs.Pos(), isNestedIn(fn, body), "the close callback is invoked outside closeOnce.Do")
			}
		}
		c.Ob("C06-D1", name+"/OnClose-site", owner.Pos(), n == 1, fmt.Sprintf("%d OnClose invocation sites in close (expected 1)", n))
		// nobody else invokes the user's OnClose
		for _, fn := range p.SrcFuncs() {
			top := EnclosingTop(fn)
			if !strings.Contains(FuncName(top), a.short+"."+a.typ+")") || top == owner {
				continue
			}
			for _, cs := range Calls(fn) {
				if strings.HasSuffix(cs.Name, ".OnClose") || strings.Contains(cs.Name, "OnClose(") {
					if strings.Contains(cs.Name, "transport.Callbacks") {
						continue
					}
					c.Ob("C06-D1", name+"/OnClose-elsewhere@"+FuncName(fn), cs.Pos(), false, "the socket's OnClose callback is invoked from "+FuncName(fn))
				}
			}
		}
	}
	for _, tr := range []struct{ short, typ string }{
		{"polling", "ServerTransport"}, {"polling", "ClientTransport"}, {"websocket", "ServerTransport"}, {"websocket", "ClientTransport"}, {"webtransport", "ServerTransport"}, {"webtransport", "ClientTransport"},
	} {
		tname := tr.short + "." + tr.typ
		n := 0
		for _, mname := range methodNames(p, tr.short, tr.typ) {
			owner := p.Fn(tr.short, tr.typ+"."+mname)
			for _, fn := range WithAnons(owner) {
				for _, cs := range CallsTo(Calls(fn), `\(\*transport\.Callbacks\)\.OnClose`) {
					n++
					body := onceBodyOf(owner, "t.once")
					c.Ob("C06-D1", tname+"."+mname+"/OnClose-in-once", cs.Pos(), body != nil && isNestedIn(fn, body) && mname == "close", "transport OnClose callback invoked outside t.once.Do in close(): a transport could report its end twice")
				}
			}
		}
		c.Ob("C06-D1", tname+"/OnClose-site", p.Fn(tr.short, tr.typ+".close").Pos(), n == 1, fmt.Sprintf("%d OnClose invocation sites (expected exactly 1, in close())", n))
	}

	c.Rule("C06-D2", "cleanup must-pass-through: for a connected socket the once body always runs leaveAll, nsp.remove, conn.remove, connected=false and the disconnect fan-out; the Engine.IO close always runs onClose(sid), which is the store's delete", 9)
	{
		owner := p.Fn("sio", "serverSocket.onClose")
		body := onceBodyOf(owner, "s.closeOnce")
		if body != nil {
			as := []Assume{{`s\.Connected\(\)`, true}}
			for _, a := range []struct {
				name string
				pred instrPred
			}{
				{"leaveAll", callPred(`\(\*sio\.serverSocket\)\.leaveAll`)},
				{"nsp.remove", callPred(`\(\*sio\.Namespace\)\.remove`)},
				{"conn.remove", callPred(`\(\*sio\.serverConn\)\.remove`)},
				{"connected=false", storeValPred(`s\.connected`, `false`)},
				{"disconnect-fan-out", func(in ssa.Instruction) bool {
					return callPred(`\(\*sio\.handlerStore\[T\]\)\.forEach`)(in) && stripAmp(Term(in.(*ssa.Call).Call.Args[0])) == "s.disconnectHandlers"
				}},
				{"disconnecting-fan-out", func(in ssa.Instruction) bool {
					return callPred(`\(\*sio\.handlerStore\[T\]\)\.forEach`)(in) && stripAmp(Term(in.(*ssa.Call).Call.Args[0])) == "s.disconnectingHandlers"
				}},
			} {
				skip, trail := PrunedCanReach(body, nil, as, nil, a.pred)
				c.Ob("C06-D2", "sio.serverSocket.onClose/"+a.name, body.Pos(), !skip, "for a connected socket a path through the close body skips "+a.name+": "+trailString(p, trail))
			}
			// arguments: removes itself
			for _, cs := range CallsTo(Calls(body), `\(\*sio\.Namespace\)\.remove|\(\*sio\.serverConn\)\.remove`) {
				c.Ob("C06-D2", "sio.serverSocket.onClose/"+shortCallee(cs.Name)+"-self", cs.Pos(), Term(cs.Arg(0)) == "s", cs.Name+" must be given this socket")
			}
			// the reason given to the handlers is the close reason
			for _, f := range WithAnons(body) {
				for _, cs := range Calls(f) {
					if strings.HasPrefix(cs.Name, "dyn:*handler") {
						c.Ob("C06-D2", "sio.serverSocket.onClose/handler-reason", cs.Pos(), Term(cs.Common().Args[0]) == "reason", "disconnect handler called with "+Term(cs.Common().Args[0])+" (expected the close reason)")
					}
				}
			}
		}
		la := p.Fn("sio", "serverSocket.leaveAll")
		d := CallsTo(Calls(la), `\(adapter\.Adapter\)\.DeleteAll`)
		c.Ob("C06-D2", "sio.serverSocket.leaveAll/DeleteAll", la.Pos(), len(d) == 1 && Term(d[0].Arg(0)) == "s.ID()" && stripAmp(Term(d[0].Common().Value)) == "s.adapter", "leaveAll must call s.adapter.DeleteAll(s.ID())")
		nr := p.Fn("sio", "Namespace.remove")
		r := CallsTo(Calls(nr), `\(\*sio\.nspSocketStore\)\.remove`)
		c.Ob("C06-D2", "sio.Namespace.remove/store", nr.Pos(), len(r) == 1 && Term(r[0].Arg(0)) == "socket.ID()", "Namespace.remove must remove the socket's id from the namespace's store")
	}
	{
		owner := p.Fn("eio", "serverSocket.close")
		body := onceBodyOf(owner, "s.closeOnce")
		if body != nil {
			isOnClose := func(in ssa.Instruction) bool {
				ci, ok := in.(ssa.CallInstruction)
				if !ok {
					return false
				}
				return stripAmp(Term(ci.Common().Value)) == "s.onClose" && len(ci.Common().Args) == 1 && Term(ci.Common().Args[0]) == "s.id"
			}
			skip, trail := CanReachExitAvoiding(body, nil, isOnClose)
			c.Ob("C06-D2", "eio.serverSocket.close/removes-session", body.Pos(), !skip, "a path through the close body neither calls nor defers s.onClose(s.id): the session id stays known: "+trailString(p, trail))
			isCC := func(in ssa.Instruction) bool {
				cl, ok := in.(*ssa.Call)
				if !ok {
					return false
				}
				b, ok := cl.Call.Value.(*ssa.Builtin)
				return ok && b.Name() == "close" && Term(cl.Call.Args[0]) == "s.closeChan"
			}
			skip2, trail2 := CanReachExitAvoiding(body, nil, isCC)
			c.Ob("C06-D2", "eio.serverSocket.close/closeChan", body.Pos(), !skip2, "close body does not close closeChan on every path (ping loop would keep running): "+trailString(p, trail2))
		}
		ns := p.Fn("eio", "Server.newSocket")
		cs := CallsTo(Calls(ns), `eio\.newServerSocket`)
		ok := false
		v := ""
		if len(cs) == 1 {
			v = Term(cs[0].Arg(7))
			if mc, isMC := cs[0].Arg(7).(*ssa.MakeClosure); isMC && strings.Contains(v, "socketStore).delete$bound") && len(mc.Bindings) == 1 && Term(mc.Bindings[0]) == "s.store" {
				ok = true
				v = "s.store.delete"
			}
		}
		c.Ob("C06-D2", "eio.Server.newSocket/onClose=store.delete", ns.Pos(), ok, "newServerSocket's onClose argument is "+v+" (expected s.store.delete)")
		cons := p.Fn("eio", "newServerSocket")
		fv := p.Field("eio", "serverSocket", "onClose")
		sts := findInstrs(cons, fieldStorePred(fv))
		okc := len(sts) == 1 && strings.Contains(Term(sts[0].(*ssa.Store).Val), "onClose")
		c.Ob("C06-D2", "eio.newServerSocket/onClose-field", cons.Pos(), okc, "serverSocket.onClose must be initialised from the constructor's onClose parameter")
		del := p.Fn("eio", "socketStore.delete")
		dd := findInstrs(del, func(in ssa.Instruction) bool {
			cl, ok := in.(*ssa.Call)
			if !ok {
				return false
			}
			b, ok := cl.Call.Value.(*ssa.Builtin)
			return ok && b.Name() == "delete" && Term(cl.Call.Args[0]) == "s.sockets" && Term(cl.Call.Args[1]) == "sid"
		})
		c.Ob("C06-D2", "eio.socketStore.delete", del.Pos(), len(dd) == 1, "socketStore.delete must delete s.sockets[sid]")
	}

	c.Rule("C06-D3", "connection close closes all its sockets with the reason it was given; the sio connection's callbacks are wired to the Engine.IO socket", 4)
	{
		owner := p.Fn("sio", "serverConn.onClose")
		body := onceBodyOf(owner, "c.closeOnce")
		if body != nil {
			for _, cs := range CallsTo(Calls(body), `\(\*sio\.serverSocket\)\.onClose`) {
				recv := stripAmp(Term(cs.Common().Args[0]))
				c.Ob("C06-D3", "sio.serverConn.onClose/each-socket-same-reason", cs.Pos(), Term(cs.Arg(0)) == "reason" && strings.HasPrefix(recv, "c.sockets.getAndRemoveAll()["), "socket.onClose("+Term(cs.Arg(0))+") on "+recv+" (expected every element of getAndRemoveAll() with the connection's reason)")
			}
		}
		nc := p.Fn("sio", "newServerConn")
		fv := p.Field("eio", "Callbacks", "OnClose")
		sts := findInstrs(nc, fieldStorePred(fv))
		c.Ob("C06-D3", "sio.newServerConn/OnClose-wired", nc.Pos(), len(sts) == 1 && strings.Contains(Term(sts[0].(*ssa.Store).Val), "serverConn).onClose"), "eio.Callbacks.OnClose must be the connection's onClose")
		cl := p.Fn("sio", "serverConn.close")
		okc := len(CallsTo(Calls(cl), `\(eio\.[A-Za-z]+\)\.Close`)) == 1 && len(CallsTo(Calls(cl), `\(\*sio\.serverConn\)\.onClose`)) == 1
		c.Ob("C06-D3", "sio.serverConn.close", cl.Pos(), okc, "serverConn.close must close the Engine.IO socket and run onClose")
		sc := p.Fn("eio", "Server.Close")
		c.Ob("C06-D3", "eio.Server.Close/closeAll", sc.Pos(), len(CallsTo(Calls(sc), `\(\*eio\.socketStore\)\.closeAll`)) == 1, "Server.Close must close every live session")
	}

	c.Rule("C06-D4", "admission re-checks liveness (ADMIT-RECHECK): after a socket/session is inserted into a registry that a concurrent, once-only close path drains, the admitting code re-reads state the closer writes (or the closer would never see the late entry)", 2)
	admitRecheck(c, "C06-D4", true, true)

	c.Rule("C06-D5", "reason constants: each close site passes the constant naming its cause", 9)
	reasonConstants(c, "C06-D5")

	c.Rule("C06-D6", "nothing left behind in the adapter: the close path of a server socket replaces join by a no-op (under joinMu) before leaveAll on every path — whatever the close reason and whether or not "+
		"connection state recovery is on —, always runs leaveAll for a connected socket, Join/Leave address the adapter under the socket's own id (shared with C04-D5), and adapter.DeleteAll forgets sids[sid] only after the sweep over every room of the sid, at every site that forgets it (shared with C04-D1)", 5)
	closedSocketInNoRoom(c, "C06-D6")
	deleteAllSweepsEveryRoom(c, "C06-D6")

	c.Rule("C06-D12", "a closed session adopts nothing (F57, shared with C07-D9 and C17-D7): upgradeTo / finishUpgradeTo swap the transport only after a non-blocking look at closeChan made under the write-held transportMu "+
		"(close() closes closeChan before it takes transportMu), and the upgrade watcher also waits for closeChan", 3)
	closedSocketAdoptsNoTransport(c, "C06-D12")
	c06Round4(c)
	c.Rule("C06-D11", "a connection that ended with a parse error is really ended (F46, shared with C10-D12): the client closes the Engine.IO socket after reporting the closure", 1)
	parseErrorClosesConnection(c, "C06-D11")

	c.Rule("C06-D7", "the Engine.IO close closes the transport for every reason except exactly those that say the transport has already closed (transport close / transport error): "+
		"for each Reason constant of the package the reason test of serverSocket.close / clientSocket.close is folded and transport.Close() must be reachable iff the reason is not one of the two; "+
		"a ping timeout or a forced close that leaves the transport open lets the half-dead peer keep using the closed session", 10)
	{
		// Reason constants of package eio
		type rc struct{ name, val string }
		var reasons []rc
		sc := p.Pkg("eio").Types.Scope()
		for _, n := range sc.Names() {
			if k, ok := sc.Lookup(n).(*types.Const); ok {
				if nt, ok := k.Type().(*types.Named); ok && nt.Obj().Name() == "Reason" && k.Val().Kind() == constant.String {
					reasons = append(reasons, rc{n, constant.StringVal(k.Val())})
				}
			}
		}
		if len(reasons) < 5 {
			c.Undecided("C06-D7: found %d Reason constants in package eio, expected at least 5", len(reasons))
		}
		already := map[string]bool{unq(p.ConstVal("eio", "ReasonTransportClose")): true, unq(p.ConstVal("eio", "ReasonTransportError")): true}
		for _, tn := range []string{"serverSocket", "clientSocket"} {
			owner := p.Fn("eio", tn+".close")
			body := onceBodyOf(owner, "s.closeOnce")
			if body == nil {
				anchorFail("C06-D7: once body of eio.%s.close not found", tn)
			}
			isTClose := anyCallPred(`\((eio\.)?(Server|Client)Transport\)\.Close`)
			if len(findInstrs(body, isTClose)) == 0 {
				c.Ob("C06-D7", "eio."+tn+".close/closes-transport", body.Pos(), false, "the close body never closes the transport")
				continue
			}
			for _, r := range reasons {
				var as []Assume
				for _, b := range body.Blocks {
					for _, in := range b.Instrs {
						bo, ok := in.(*ssa.BinOp)
						if !ok || (bo.Op != token.EQL && bo.Op != token.NEQ) {
							continue
						}
						var other ssa.Value
						isReason := func(v ssa.Value) bool {
							nt, ok := v.Type().(*types.Named)
							return ok && nt.Obj().Name() == "Reason"
						}
						if k, isK := bo.Y.(*ssa.Const); isK && isReason(bo.X) && k.Value != nil && k.Value.Kind() == constant.String {
							other = bo.X
							eq := constant.StringVal(k.Value) == r.val
							as = append(as, assumeCond(bo, eq == (bo.Op == token.EQL)))
						} else if k, isK := bo.X.(*ssa.Const); isK && isReason(bo.Y) && k.Value != nil && k.Value.Kind() == constant.String {
							other = bo.Y
							eq := constant.StringVal(k.Value) == r.val
							as = append(as, assumeCond(bo, eq == (bo.Op == token.EQL)))
						}
						_ = other
					}
				}
				// the transport is set on a live socket
				as = append(as, Assume{`\(s\.transport != nil.*\)`, true}, Assume{`\(s\.transport == nil.*\)`, false})
				reach, _ := PrunedCanReach(body, nil, as, isTClose, nil)
				skip, trail := PrunedCanReach(body, nil, as, nil, isTClose)
				if already[r.val] {
					c.Ob("C06-D7", "eio."+tn+".close/"+r.name, body.Pos(), true, "transport already closed for this reason; Close reachable="+fmt.Sprint(reach))
				} else {
					c.Ob("C06-D7", "eio."+tn+".close/"+r.name, body.Pos(), reach && !skip, fmt.Sprintf("closing with %s (%q) can finish without closing the transport: the peer keeps a working connection to a session that was reported closed: %s", r.name, r.val, trailString(p, trail)))
				}
			}
		}
	}
}

func methodNames(p *Program, short, typ string) []string {
	nt := p.Named(short, typ)
	var out []string
	for i := 0; i < nt.NumMethods(); i++ {
		out = append(out, nt.Method(i).Name())
	}
	sort.Strings(out)
	return out
}

// admitRecheck implements the ADMIT-RECHECK rule for the two registries.
func admitRecheck(c *Ctx, rule string, sio, eio bool) {
	p := c.P
	if sio {
		// closer: serverConn.onClose's once body; admission: Namespace.doConnect / serverConn.connect after sockets.set
		closer := onceBodyOf(p.Fn("sio", "serverConn.onClose"), "c.closeOnce")
		if closer == nil {
			anchorFail("serverConn.onClose once body not found")
		}
		wAll := transFieldRW(p, closer, 2).writes
		// only state of the connection itself can tell admission that the sweep already happened
		w := map[*types.Var]ssa.Instruction{}
		connSt := p.Struct("sio", "serverConn")
		for i := 0; i < connSt.NumFields(); i++ {
			if in, ok := wAll[connSt.Field(i)]; ok {
				w[connSt.Field(i)] = in
			}
		}
		// the registries themselves do not count: the closer drains them once, a later insert is not seen
		registry := map[*types.Var]bool{}
		for _, f := range []string{"socketsByID", "socketsByNsp"} {
			registry[p.Field("sio", "serverSocketStore", f)] = true
		}
		registry[p.Field("sio", "nspSocketStore", "sockets")] = true
		ok := false
		var where string
		for _, fnn := range []string{"Namespace.doConnect", "serverConn.connect"} {
			fn := p.Fn("sio", fnn)
			for _, cs := range CallsTo(Calls(fn), `\(\*sio\.serverSocketStore\)\.set`) {
				// reads after the insertion (in this function and callees, depth 2) of a field the closer writes
				for _, after := range Calls(fn) {
					if !Dominates(cs.Instr, after.Instr) {
						continue
					}
					var callee *ssa.Function
					if sc := after.Common().StaticCallee(); sc != nil && p.inModule(sc) {
						callee = sc
					}
					if callee == nil {
						continue
					}
					// only liveness predicates count: calls whose result is tested (returns bool) — a value the admission path branches on
					if callee.Signature.Results().Len() != 1 || !types.Identical(callee.Signature.Results().At(0).Type(), types.Typ[types.Bool]) {
						continue
					}
					r := transFieldRW(p, callee, 2).reads
					for fv := range r {
						if _, wr := w[fv]; wr && !registry[fv] {
							ok = true
							where = FuncName(fn) + " → " + FuncName(callee) + " reads " + fv.Name()
						}
					}
				}
				// direct field reads after the insertion
				for _, fa := range FieldAccesses(fn) {
					if !fa.Write && Dominates(cs.Instr, fa.Instr) {
						if _, wr := w[fa.Field]; wr && !registry[fa.Field] {
							ok = true
							where = FuncName(fn) + " reads " + fa.Field.Name()
						}
					}
				}
			}
		}
		var ws []string
		for fv := range w {
			if !registry[fv] {
				ws = append(ws, fv.Name())
			}
		}
		sort.Strings(ws)
		detail := "after inserting the socket into the connection's store, admission (doConnect/connect) reads no field of the connection that serverConn.onClose's once body writes (connection fields written by the closer: [" + strings.Join(ws, ",") + "]): a connection that closed while a namespace middleware was running has already swept its sockets, so the socket admitted afterwards stays in Namespace.Sockets() and its room for ever and its disconnect handlers never run"
		if ok {
			detail = "liveness re-check found: " + where
		}
		c.Ob(rule, "sio.serverConn/admission-vs-onClose", p.Fn("sio", "Namespace.doConnect").Pos(), ok, detail)
	}
	if eio {
		fn := p.Fn("eio", "Server.newSocket")
		sets := CallsTo(Calls(fn), `\(\*eio\.socketStore\)\.set`)
		if len(sets) != 1 {
			c.Ob(rule, "eio.Server.newSocket/store.set", fn.Pos(), false, fmt.Sprintf("expected one store.set, found %d", len(sets)))
			return
		}
		T := Term(sets[0].Instr.(*ssa.Call))
		closedF := p.Field("eio", "Server", "closed")
		isRecheck := func(in ssa.Instruction) bool {
			cl, ok := in.(*ssa.Call)
			if !ok {
				return false
			}
			sc := cl.Call.StaticCallee()
			if sc == nil || !p.inModule(sc) {
				return false
			}
			_, rd := transFieldRW(p, sc, 1).reads[closedF]
			return rd
		}
		// success path: set returned true; returning the socket without the re-check
		retSock := func(in ssa.Instruction) bool {
			r, ok := in.(*ssa.Return)
			return ok && len(r.Results) == 1 && Term(r.Results[0]) != "nil"
		}
		miss, trail := PrunedCanReach(fn, sets[0].Instr, []Assume{{regexpQuote(T), true}}, retSock, isRecheck)
		c.Ob(rule, "eio.Server.newSocket/recheck-closed", sets[0].Pos(), !miss, "after store.set the new session is returned without re-reading Server.closed: a handshake that passed the entry check is admitted after Close() swept the store: "+trailString(p, trail))
		// when closed, the socket is closed and nil returned
		for _, rc := range findInstrs(fn, isRecheck) {
			if !Dominates(sets[0].Instr, rc) {
				continue
			}
			RT := Term(rc.(*ssa.Call))
			live, trail := PrunedCanReach(fn, rc, []Assume{{regexpQuote(RT), true}}, retSock, nil)
			c.Ob(rule, "eio.Server.newSocket/closed-not-admitted", rc.Pos(), !live, "with the server closed the session is still returned: "+trailString(p, trail))
			noClose, trail2 := PrunedCanReach(fn, rc, []Assume{{regexpQuote(RT), true}}, nil, callPred(`\(\*eio\.serverSocket\)\.(Close|close)`))
			c.Ob(rule, "eio.Server.newSocket/closed-closes-socket", rc.Pos(), !noClose, "with the server closed the late session is not closed: "+trailString(p, trail2))
		}
		// Close sets the flag before sweeping
		cl := p.Fn("eio", "Server.Close")
		sweep := CallsTo(Calls(cl), `\(\*eio\.socketStore\)\.closeAll`)
		if len(sweep) == 1 {
			// the once-do that closes s.closed must precede closeAll
			var do ssa.Instruction
			for _, ob := range OnceBodies(cl) {
				if ob.Body != nil {
					if _, wr := transFieldRW(p, ob.Body, 0).writes[closedF]; wr {
						do = ob.Site.Instr
					}
				}
			}
			c.Ob(rule, "eio.Server.Close/flag-before-sweep", cl.Pos(), do != nil && Dominates(do, sweep[0].Instr), "Close must set the closed flag before closeAll (else a handshake between sweep and flag is never closed)")
		} else {
			c.Ob(rule, "eio.Server.Close/sweep", cl.Pos(), false, "Close must call store.closeAll once")
		}
	}
}

func reasonConstants(c *Ctx, rule string) {
	p := c.P
	q := func(short, name string) string { return p.ConstVal(short, name) }
	type site struct {
		short, fn, callee string
		arg               int
		want              string
		guard             string
	}
	// small helpers a refactoring may inline into their only caller: the close call is then looked for there
	hosts := map[string]string{"sio.serverSocket.onDisconnect": "serverSocket.onPacket", "sio.clientSocket.onDisconnect": "clientSocket.onPacket",
		"eio.serverSocket.Close": "", "eio.clientSocket.Close": ""}
	check := func(s site) {
		top := p.FnOpt(s.short, s.fn)
		if top == nil {
			if h := hosts[s.short+"."+s.fn]; h != "" {
				top = p.Fn(s.short, h)
			} else {
				top = p.Fn(s.short, s.fn) // anchor gone: undecided
			}
			// in the host only the call carrying this very reason is this site's
			n := 0
			for _, f := range WithAnons(top) {
				for _, cs := range CallsTo(Calls(f), s.callee) {
					if Term(cs.Arg(s.arg)) == s.want {
						n++
						c.Ob(rule, s.short+"."+s.fn+"→"+shortCallee(cs.Name)+"("+s.want+")", cs.Pos(), true, "")
					}
				}
			}
			if n == 0 {
				c.Ob(rule, s.short+"."+s.fn+"→"+s.want, top.Pos(), false, "no close call with this cause found in "+s.fn+" or the function it was inlined into")
			}
			return
		}
		n := 0
		for _, f := range WithAnons(top) {
			for _, cs := range CallsTo(Calls(f), s.callee) {
				a := Term(cs.Arg(s.arg))
				if s.guard != "" && !HasGuard(cs.Instr, s.guard) {
					continue
				}
				n++
				c.Ob(rule, s.short+"."+s.fn+"→"+shortCallee(cs.Name)+"("+s.want+")", cs.Pos(), a == s.want, "close reason passed here is "+a+" (expected "+s.want+")")
			}
		}
		if n == 0 {
			c.Ob(rule, s.short+"."+s.fn+"→"+s.want, top.Pos(), false, "no close call with this cause found in "+s.fn)
		}
	}
	check(site{"eio", "serverSocket.pingPong", `\(\*eio\.serverSocket\)\.close`, 0, q("eio", "ReasonPingTimeout"), ""})
	check(site{"eio", "clientSocket.handleTimeout", `\(\*eio\.clientSocket\)\.close`, 0, q("eio", "ReasonPingTimeout"), ""})
	check(site{"eio", "serverSocket.Close", `\(\*eio\.serverSocket\)\.close`, 0, q("eio", "ReasonForcedClose"), ""})
	check(site{"eio", "clientSocket.Close", `\(\*eio\.clientSocket\)\.close`, 0, q("eio", "ReasonForcedClose"), ""})
	check(site{"eio", "serverSocket.onTransportClose", `\(\*eio\.serverSocket\)\.close`, 0, q("eio", "ReasonTransportClose"), `\(err == nil\)==true`})
	check(site{"eio", "serverSocket.onTransportClose", `\(\*eio\.serverSocket\)\.close`, 0, q("eio", "ReasonTransportError"), `\(err == nil\)==false`})
	check(site{"eio", "clientSocket.onTransportClose", `\(\*eio\.clientSocket\)\.close`, 0, q("eio", "ReasonTransportClose"), `\(err == nil\)==true`})
	check(site{"eio", "clientSocket.onTransportClose", `\(\*eio\.clientSocket\)\.close`, 0, q("eio", "ReasonTransportError"), `\(err == nil\)==false`})
	check(site{"sio", "serverSocket.onDisconnect", `\(\*sio\.serverSocket\)\.onClose`, 0, q("sio", "ReasonClientNamespaceDisconnect"), ""})
	check(site{"sio", "serverSocket.Disconnect", `\(\*sio\.serverSocket\)\.onClose`, 0, q("sio", "ReasonServerNamespaceDisconnect"), ""})
	check(site{"sio", "Server.Close", `\(\*sio\.serverSocket\)\.onClose`, 0, q("sio", "ReasonServerShuttingDown"), ""})
	check(site{"sio", "serverConn.close", `\(\*sio\.serverConn\)\.onClose`, 0, q("sio", "ReasonForcedServerClose"), ""})
	check(site{"sio", "clientSocket.onDisconnect", `\(\*sio\.clientSocket\)\.onClose`, 0, q("sio", "ReasonIOServerDisconnect"), ""})
	check(site{"sio", "clientSocket.Disconnect", `\(\*sio\.clientSocket\)\.onClose`, 0, q("sio", "ReasonIOClientDisconnect"), ""})
	check(site{"sio", "Manager.onEIOPacket", `\(\*sio\.Manager\)\.onClose`, 0, q("eio", "ReasonParseError"), ""})
	check(site{"sio", "Manager.Close", `\(\*sio\.Manager\)\.onClose`, 0, q("eio", "ReasonForcedClose"), ""})
	// the reason travels unchanged from the Engine.IO close to the callback
	for _, tn := range []string{"serverSocket", "clientSocket"} {
		owner := p.Fn("eio", tn+".close")
		for _, f := range WithAnons(owner) {
			for _, cs := range Calls(f) {
				if strings.Contains(cs.Name, "OnClose") {
					a0 := Term(cs.Common().Args[0])
					c.Ob(rule, "eio."+tn+".close/reason-forwarded", cs.Pos(), a0 == "reason", "OnClose receives "+a0+" (expected the reason given to close)")
				}
			}
		}
	}
}

func unq(s string) string {
	if u, err := strconv.Unquote(s); err == nil {
		return u
	}
	return s
}
