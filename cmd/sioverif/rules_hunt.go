package main

// Rules written for genuine defects found by the defect hunt (F47–F52).

import (
	"fmt"
	"go/token"
	"strings"

	"golang.org/x/tools/go/ssa"
)

// F47 (C18-D11): every creation of a namespace runs the NewNamespace handlers.
func newNamespaceHandlersRun(c *Ctx, rule string) {
	p := c.P
	n := 0
	for _, fn := range p.SrcFuncs() {
		for _, cs := range CallsTo(Calls(fn), `\(\*sio\.nspStore\)\.getOrCreate`) {
			if cs.Instr.Parent() != fn {
				continue
			}
			n++
			call := cs.Instr.(*ssa.Call)
			created := extractOf(call, 1)
			ok := false
			if created != nil {
				// the handlers are run on the path where it is true
				r, _ := PrunedCanReach(fn, cs.Instr, []Assume{assumeCond(created, true)}, func(in ssa.Instruction) bool {
					ci, isCI := in.(ssa.CallInstruction)
					return isCI && strings.Contains(Term(ci.Common().Args[0]), "newNamespaceHandlers") && strings.Contains(calleeName(ci.Common()), "forEach")
				}, nil)
				ok = r
			}
			c.Ob(rule, "getOrCreate@"+FuncName(fn), cs.Pos(), ok, "the `created` result of getOrCreate is dropped (or never leads to the NewNamespace handlers): a namespace created here — by a client, under AcceptAnyNamespace — never reaches OnNewNamespace, so it cannot be given middlewares or handlers before its first socket is admitted")
		}
	}
	if n < 2 {
		c.Undecided("%s: only %d getOrCreate call sites found", rule, n)
	}
}

// F48 (C09-D15): an empty or null Binary position is not taken for a placeholder.
func nullBinaryNotAPlaceholder(c *Ctx, rule string) {
	p := c.P
	fn := p.Fn("jsonparser", "reconstructor.reconstructBinaryValue")
	n := 0
	for _, cs := range Calls(fn) {
		if !cs.Common().IsInvoke() || cs.Common().Method.Name() != "Unmarshal" || cs.Instr.Parent() != fn {
			continue
		}
		n++
		guarded := false
		for _, g := range Guards(cs.Instr) {
			t := Term(g.Cond)
			if strings.HasPrefix(t, "(len(") && ((strings.HasSuffix(t, " == 0)") && !g.Val) || (strings.HasSuffix(t, " != 0)") && g.Val) || (strings.HasSuffix(t, " > 0)") && g.Val)) {
				guarded = true
			}
		}
		c.Ob(rule, fmt.Sprintf("jsonparser.reconstructBinaryValue/placeholder-parse-needs-bytes#%d", n), cs.Pos(), guarded, fmt.Sprintf("the placeholder is parsed under %v, also when the position holds no bytes (the sender's value was null or absent): the decode fails and the whole event is dropped although the other positions carry valid attachments", GuardTerms(cs.Instr)))
	}
	if n == 0 {
		c.Undecided("%s: no placeholder Unmarshal in reconstructBinaryValue", rule)
	}
	// and null is read back as an absent Binary, not as its four characters
	um := p.FnOpt("jsonparser", "Binary.UnmarshalJSON")
	okNull := um != nil && comparesWithLiteral(um, "null")
	pos := fn.Pos()
	if um != nil {
		pos = um.Pos()
	}
	c.Ob(rule, "jsonparser.Binary.UnmarshalJSON/null", pos, okNull, "Binary.UnmarshalJSON keeps the literal null as the Binary's bytes: reconstructBinaryValue then parses it as a placeholder with num 0 and puts attachment 0 into a position the sender left empty")
}

// F49 (C11-D8): the handshake's upgrades are an array.
func handshakeUpgradesNeverNull(c *Ctx, rule string) {
	p := c.P
	fn := p.Fn("eio", "Server.newHandshakePacket")
	// the Upgrades field of the response is set to a value that is replaced when nil
	hasNilTest := false
	for _, b := range fn.Blocks {
		for _, in := range b.Instrs {
			if bo, ok := in.(*ssa.BinOp); ok && (bo.Op == token.EQL || bo.Op == token.NEQ) {
				if k, isK := bo.Y.(*ssa.Const); isK && k.Value == nil && strings.Contains(Term(bo.X), "upgrades") {
					hasNilTest = true
				}
			}
		}
	}
	c.Ob(rule, "eio.Server.newHandshakePacket/upgrades-array", fn.Pos(), hasNilTest, "newHandshakePacket marshals whatever slice it is given: the websocket and webtransport handshakes pass nil, which is written as \"upgrades\":null — Engine.IO v4 prescribes an array (the reference clients read upgrades.length and throw)")
}

// F51 (C15-D8): a refused CONNECT does not leave the socket pending.
func connectErrorResetsState(c *Ctx, rule string) {
	p := c.P
	fn := p.Fn("sio", "clientSocket.onConnectError")
	sv := p.Field("sio", "clientSocket", "state")
	ok := false
	disc := p.ConstVal("sio", "clientSocketConnStateDisconnected")
	isDisc := func(v ssa.Value) bool {
		t := Term(v)
		return t == disc || strings.HasPrefix(t, disc+":")
	}
	for _, st := range findInstrs(fn, fieldStorePred(sv)) {
		if isDisc(st.(*ssa.Store).Val) {
			ok = true
		}
	}
	// or through destroy/onClose helpers that store it
	if !ok {
		for _, cs := range Calls(fn) {
			if sc := cs.Common().StaticCallee(); sc != nil && p.inModule(sc) {
				for _, st := range findInstrs(sc, fieldStorePred(sv)) {
					if isDisc(st.(*ssa.Store).Val) {
						ok = true
					}
				}
			}
		}
	}
	c.Ob(rule, "sio.clientSocket.onConnectError/not-left-pending", fn.Pos(), ok, "onConnectError never sets the socket's state back to disconnected: the socket stays connect-pending, and neither Connect nor the manager's open handler sends CONNECT again — 'fix the auth in the connect_error handler and connect again' does nothing")
}

// F52 (C16-D6): the caller's configuration is not rearranged in place.
func callerTransportsNotMutated(c *Ctx, rule string) {
	p := c.P
	fn := p.Fn("eio", "dial")
	n := 0
	for _, fa := range FieldAccesses(fn) {
		if fdisp(fa.Field) != "Transports" || fa.Write {
			continue
		}
		ld, ok := fa.Instr.(*ssa.UnOp)
		if !ok || ld.Referrers() == nil {
			continue
		}
		for _, r := range *ld.Referrers() {
			n++
			okUse := false
			switch x := r.(type) {
			case *ssa.Call:
				nm := calleeName(&x.Call)
				okUse = strings.HasPrefix(nm, "slices.Clone") || nm == "len" || nm == "copy" && x.Call.Args[1] == ssa.Value(ld) || nm == "append" && len(x.Call.Args) == 2 && x.Call.Args[1] == ssa.Value(ld)
			case *ssa.Range, *ssa.Index, *ssa.IndexAddr, *ssa.BinOp:
				okUse = true
				if ia, isIA := r.(*ssa.IndexAddr); isIA && ia.Referrers() != nil {
					for _, rr := range *ia.Referrers() {
						if st, isSt := rr.(*ssa.Store); isSt && st.Addr == ssa.Value(ia) {
							okUse = false
						}
					}
				}
			}
			c.Ob(rule, fmt.Sprintf("eio.dial/config.Transports-use#%d", n), r.Pos(), okUse, "config.Transports is used as "+trunc(r.String(), 70)+": the slice belongs to the caller and is used again for the next connection; connect and maybeUpgrade (on its own goroutine) re-slice and rearrange what they are given — a copy must be taken")
		}
	}
	if n == 0 {
		c.Undecided("%s: no use of config.Transports found in dial", rule)
	}
}

// F55 (C05-D12): a socket that is not connected yet sends nothing but CONNECT — neither DISCONNECT (repaired) nor events
// (known finding F56).
func pendingSocketSendsNothing(c *Ctx, rule string) {
	p := c.P
	// (a) Disconnect sends the DISCONNECT packet only when connected
	fn := p.Fn("sio", "clientSocket.Disconnect")
	for _, cs := range CallsTo(Calls(fn), `\(\*sio\.clientSocket\)\.sendControlPacket`) {
		okG := false
		for _, g := range Guards(cs.Instr) {
			t := Term(g.Cond)
			if strings.HasSuffix(t, ".Connected()") && g.Val {
				okG = true
			}
		}
		c.Ob(rule, "sio.clientSocket.Disconnect/disconnect-packet-only-when-connected", cs.Pos(), okG, fmt.Sprintf("the DISCONNECT packet is sent under %v, i.e. also while the CONNECT is pending: the server has no socket for the namespace yet, takes the packet for an invalid state and closes the whole connection — every other namespace of this client goes down with it", GuardTerms(cs.Instr)))
	}
	// (b) events are sent at once only when connected
	sb := p.Fn("sio", "clientSocket._sendBuffers")
	n := 0
	for _, b := range sb.Blocks {
		for _, in := range b.Instrs {
			bo, ok := in.(*ssa.BinOp)
			if !ok || bo.Op != token.EQL || !strings.HasSuffix(Term(bo.X), ".state") {
				continue
			}
			pend := p.ConstVal("sio", "clientSocketConnStateConnectPending")
			if t := Term(bo.Y); t == pend || strings.HasPrefix(t, pend+":") {
				n++
				c.Ob(rule, "sio.clientSocket._sendBuffers/no-send-while-connect-pending", bo.Pos(), false, "_sendBuffers treats the connect-pending state like connected and sends the packet at once: the CONNECT packet itself goes out from another goroutine, so the event reaches the server before a socket for the namespace exists — the server closes the whole connection and the event is lost (the reference buffers until connected)")
			}
		}
	}
	if n == 0 {
		c.Ob(rule, "sio.clientSocket._sendBuffers/no-send-while-connect-pending", sb.Pos(), true, "the connect-pending state is not treated as connected")
	}
}

// F57 (C06-D12, shared with C07-D9 and C17-D7): a closed Engine.IO socket never adopts a transport.
func closedSocketAdoptsNoTransport(c *Ctx, rule string) {
	p := c.P
	for _, a := range []struct{ fn, recv string }{{"serverSocket.upgradeTo", "s"}, {"clientSocket.finishUpgradeTo", "s"}} {
		fn := p.Fn("eio", a.fn)
		li := Locks(fn)
		swaps := findInstrs(fn, storePred(`s\.transport`))
		if len(swaps) == 0 {
			c.Undecided("%s: no store to s.transport in %s", rule, a.fn)
			continue
		}
		for _, sw := range swaps {
			// a non-blocking look at closeChan, made while transportMu is write-held, decides the swap
			okSel := false
			for _, b := range fn.Blocks {
				for _, in := range b.Instrs {
					se, ok := in.(*ssa.Select)
					if !ok || se.Blocking {
						continue
					}
					onClose := false
					for _, st := range se.States {
						if strings.HasSuffix(Term(st.Chan), ".closeChan") {
							onClose = true
						}
					}
					if onClose && li.HoldsW(in, "s.transportMu") && Dominates(in, sw) && SameRegion(li, in, sw, "s.transportMu") && HasGuard(sw, `^\(select@.* == 0\)==false$`) {
						okSel = true
					}
				}
			}
			c.Ob(rule, "eio."+a.fn+"/closed-socket-adopts-no-transport", sw.Pos(), okSel, "the transport is swapped in without looking at closeChan under transportMu: an UPGRADE packet that arrives after the session was closed re-attaches the dead session to the probed transport — nothing ever closes it, packets keep flowing into a closed session (a CONNECT on it creates a socket that stays listed for ever)")
		}
	}
	// the upgrade watcher gives up when the socket closes
	mu := p.Fn("eio", "Server.maybeUpgrade")
	watch := false
	for _, f := range WithAnons(mu) {
		for _, b := range f.Blocks {
			for _, in := range b.Instrs {
				se, ok := in.(*ssa.Select)
				if !ok || !se.Blocking {
					continue
				}
				hasDone, hasClose := false, false
				for _, st := range se.States {
					t := Term(st.Chan)
					if strings.HasSuffix(t, ".closeChan") {
						hasClose = true
					}
					if t == "done" || strings.HasSuffix(t, "done") {
						hasDone = true
					}
				}
				if hasDone && hasClose {
					watch = true
				}
			}
		}
	}
	c.Ob(rule, "eio.Server.maybeUpgrade/watcher-sees-the-close", mu.Pos(), watch, "the goroutine that waits for the upgrade to finish or time out does not wait for the socket's closeChan: a probing transport whose session closes stays open until the upgrade timeout — or for ever once `done` was closed")
}

// F58 (C16-D7): caller-supplied options are not dereferenced raw while a non-deferred lock is held.
func callerOptionsNormalisedBeforeLock(c *Ctx, rule string) {
	p := c.P
	n := 0
	for _, fn := range p.SrcFuncs() {
		if fn.Pkg == nil || fn.Parent() != nil {
			continue
		}
		if sh, _ := shortOf(fn.Pkg.Pkg.Path()); sh != "adapter" {
			continue
		}
		var li *LockInfo
		for _, b := range fn.Blocks {
			for _, in := range b.Instrs {
				fa, ok := in.(*ssa.FieldAddr)
				if !ok {
					continue
				}
				par, isPar := fa.X.(*ssa.Parameter)
				if !isPar || !strings.HasSuffix(par.Type().String(), "adapter.BroadcastOptions") {
					continue
				}
				if li == nil {
					li = LocksInherit(fn)
				}
				held := false
				for l := range li.Held(in) {
					if _, inh := li.Entry[l]; !li.Deferred[l] && !inh {
						held = true
					}
				}
				if !held {
					continue
				}
				n++
				c.Ob(rule, fmt.Sprintf("%s/raw-options-under-lock#%d", FuncName(fn), n), in.Pos(), false, "a field of the caller's *BroadcastOptions ("+Term(fa)+") is read while a mutex is held by a non-deferred Lock: opts, opts.Rooms and opts.Except can be nil (Sockets(nil), a BroadcastOptions literal) — the nil dereference / nil-set method call panics with the mutex held; in a handler the library recovers the panic and the adapter stays locked for ever")
			}
		}
	}
	if n == 0 {
		c.Ob(rule, "adapter/options-normalised-before-lock", p.Fn("adapter", "inMemoryAdapter.apply").Pos(), true, "no raw caller options are dereferenced under a non-deferred lock")
	}
	// and the normaliser is applied where the lock is taken by hand
	ap := p.Fn("adapter", "inMemoryAdapter.apply")
	norm := CallsTo(Calls(ap), `adapter\.normalizeBroadcastOptions`)
	locks := findInstrs(ap, func(in ssa.Instruction) bool { op, ok := lockOpOf(in); return ok && op.acq })
	okN := len(norm) >= 1 && len(locks) >= 1
	for _, l := range locks {
		if len(norm) >= 1 && !Dominates(norm[0].Instr, l) {
			okN = false
		}
	}
	c.Ob(rule, "adapter.inMemoryAdapter.apply/normalises-first", ap.Pos(), okN, "apply must make nil options and nil sets empty before it locks a.mu")
}

// F59 (C16-D8): nothing is stored through a configuration pointer the caller shares between connections.
func sharedDialOptionsNotWritten(c *Ctx, rule string) {
	p := c.P
	n := 0
	for _, fn := range p.SrcFuncs() {
		if fn.Pkg == nil {
			continue
		}
		if sh, _ := shortOf(fn.Pkg.Pkg.Path()); sh != "websocket" && sh != "polling" && sh != "webtransport" && sh != "eio" {
			continue
		}
		for _, b := range fn.Blocks {
			for _, in := range b.Instrs {
				st, ok := in.(*ssa.Store)
				if !ok {
					continue
				}
				fa, ok := st.Addr.(*ssa.FieldAddr)
				if !ok {
					continue
				}
				// base: a pointer loaded from a field of the receiver / a config whose type comes from another module
				ld, ok := fa.X.(*ssa.UnOp)
				if !ok {
					continue
				}
				if _, isF := ld.X.(*ssa.FieldAddr); !isF {
					continue
				}
				ts := deref(fa.X.Type()).String()
				if !strings.HasSuffix(ts, "DialOptions") && !strings.HasSuffix(ts, "AcceptOptions") && !strings.HasSuffix(ts, "ClientConfig") && !strings.HasSuffix(ts, "ServerConfig") {
					continue
				}
				n++
				c.Ob(rule, fmt.Sprintf("%s/store-through-shared-config#%d", FuncName(fn), n), in.Pos(), false, "a field of "+ts+" is written through "+Term(fa.X)+": that value belongs to the caller and is shared by every transport and connection built from the same configuration — concurrent connects race on it, and the caller's settings are replaced")
			}
		}
	}
	if n == 0 {
		c.Ob(rule, "transports/no-store-through-shared-config", p.Fn("websocket", "ClientTransport.Handshake").Pos(), true, "no store through a shared options pointer")
	}
}
