package main

// C02 — per-emitter order, contiguous binary frames.

import (
	"fmt"
	"sort"
	"strings"

	"golang.org/x/tools/go/callgraph"
	"golang.org/x/tools/go/ssa"
)

func init() {
	register(&PropertySpec{
		ID:         "C02",
		NotDecided: "order on the wire under real scheduling and what the peer's stack does; decided are: all frames of a packet enter the queue in one critical section, exactly one drainer per queue, who may send, and that no goroutine hop lies between frame arrival and handler entry.",
		Run:        runC02,
	})
}

// atomicAppend checks that add() stores the whole variadic parameter into
// .packets in a single write-locked region.
func atomicAppend(c *Ctx, rule, short, fnName string) {
	fn := c.P.Fn(short, fnName)
	li := Locks(fn)
	recv := vname(fn.Params[0])
	par := vname(fn.Params[1])
	stores := findInstrs(fn, storePred(regexpQuote(recv+".packets")))
	name := short + "." + fnName
	if len(stores) == 0 {
		c.Ob(rule, name+"/stores", fn.Pos(), false, "add() never stores to "+recv+".packets")
		return
	}
	for _, st := range stores {
		v := Term(st.(*ssa.Store).Val)
		okv := v == par || v == "append("+recv+".packets, "+par+")"
		c.Ob(rule, name+"/whole-parameter", st.Pos(), okv, "stores "+v+" (expected the whole parameter `"+par+"` or append("+recv+".packets, "+par+"...)): frames of one packet must enter the queue together")
		c.Ob(rule, name+"/under-lock", st.Pos(), li.HoldsW(st, recv+".mu"), "store to "+recv+".packets without "+recv+".mu write-held; held="+li.Held(st).String())
		c.Ob(rule, name+"/not-in-loop", st.Pos(), !inLoop(st.Block()), "the store sits in a loop: frames would be appended one by one")
	}
	nlock := len(findInstrs(fn, func(in ssa.Instruction) bool {
		op, ok := lockOpOf(in)
		return ok && op.acq && op.lock == recv+".mu"
	}))
	c.Ob(rule, name+"/one-region", fn.Pos(), nlock == 1, fmt.Sprintf("%d Lock() calls on %s.mu in add(): the frames of one call must be published in a single critical section", nlock, recv))
}

func runC02(c *Ctx) {
	p := c.P

	c.Rule("C02-D1", "atomic append: add() stores its whole variadic parameter in one write-locked region; every producer hands ALL frames of one encoded packet to a single enqueue call outside any loop", 20)
	atomicAppend(c, "C02-D1", "sio", "packetQueue.add")
	atomicAppend(c, "C02-D1", "polling", "pollQueue.add")
	// forwarding wrappers
	for _, a := range []struct{ fn, callee, argWant string }{
		{"serverConn.packet", `\(\*sio\.packetQueue\)\.add`, "packets"},
		{"Manager.packet", `\(\*sio\.packetQueue\)\.add`, "packets"},
	} {
		fn := p.FnOpt("sio", a.fn)
		if fn == nil {
			continue // the forwarding wrapper was inlined: its callers enqueue directly (checked as producers below)
		}
		cs := CallsTo(Calls(fn), a.callee)
		if len(cs) != 1 {
			c.Ob("C02-D1", "sio."+a.fn+"/forwards", fn.Pos(), false, fmt.Sprintf("expected exactly one call to packetQueue.add, found %d", len(cs)))
			continue
		}
		arg := Term(cs[0].Arg(0))
		c.Ob("C02-D1", "sio."+a.fn+"/forwards", cs[0].Pos(), arg == a.argWant && !cs[0].IsGo() && !inLoop(cs[0].Instr.Block()), "packetQueue.add receives "+arg+" (expected the whole parameter, one synchronous call outside loops)")
	}
	// producers: one enqueue call with the full slice built from all buffers
	for _, a := range []struct{ fn, callee, lenOf string }{
		{"serverConn.sendBuffers", `\(\*sio\.serverConn\)\.packet|\(\*sio\.packetQueue\)\.add`, "len(buffers)"},
		{"clientSocket._sendBuffers", `\(\*sio\.Manager\)\.packet|\(\*sio\.packetQueue\)\.add`, "len(buffers)"},
		{"clientSocket.emitBuffered", `\(\*sio\.Manager\)\.packet|\(\*sio\.packetQueue\)\.add`, "len(s.sendBuffer)"},
	} {
		fn := p.Fn("sio", a.fn)
		cs := CallsTo(Calls(fn), a.callee)
		name := "sio." + a.fn
		if len(cs) == 0 {
			c.Ob("C02-D1", name+"/single-enqueue", fn.Pos(), false, "no enqueue call found")
			continue
		}
		// a producer may have more than one enqueue site (forced control packets, the connected path): no path
		// passes through two of them, and each receives the whole packet
		twice := false
		for i, x := range cs {
			for j, y := range cs {
				if i != j {
					if r, _ := CanReachAvoiding(fn, x.Instr, func(in ssa.Instruction) bool { return in == y.Instr }, nil); r {
						twice = true
					}
				}
			}
		}
		c.Ob("C02-D1", name+"/single-enqueue", cs[0].Pos(), !twice, fmt.Sprintf("a path passes through two of the %d enqueue calls: the frames of one packet would be queued twice or in pieces", len(cs)))
		for i, x := range cs {
			suffix := ""
			if i > 0 {
				suffix = fmt.Sprintf("#%d", i+1)
			}
			okArg, _ := wholePacketArg(x.Arg(0), a.lenOf)
			c.Ob("C02-D1", name+"/all-frames"+suffix, x.Pos(), okArg, "enqueue receives "+Term(x.Arg(0))+" (expected the slice made with "+a.lenOf+" elements, i.e. every frame of the packet, at most with older frames put in front in one piece)")
			c.Ob("C02-D1", name+"/not-in-loop"+suffix, x.Pos(), !inLoop(x.Instr.Block()) && !x.IsGo(), "the enqueue call is inside a loop or asynchronous: frames of one packet could interleave with another packet's")
		}
		// every element of the slice is filled before the enqueue: stores into the slice happen at index 0 and i+1 — checked by the bounds prover in C10; here: no other enqueue-like call between
	}
	// who may call packetQueue.add / Manager.packet / serverConn.packet
	whoMayCall(c, "C02-D1", `\(\*sio\.packetQueue\)\.add`, []string{"(*sio.serverConn).packet", "(*sio.Manager).packet", "(*sio.serverConn).sendBuffers", "(*sio.clientSocket)._sendBuffers", "(*sio.clientSocket).emitBuffered"}, true)
	whoMayCall(c, "C02-D1", `\(\*sio\.serverConn\)\.packet`, []string{"(*sio.serverConn).sendBuffers"}, p.FnOpt("sio", "serverConn.packet") != nil)
	whoMayCall(c, "C02-D1", `\(\*sio\.Manager\)\.packet`, []string{"(*sio.clientSocket)._sendBuffers", "(*sio.clientSocket).emitBuffered"}, p.FnOpt("sio", "Manager.packet") != nil)
	// offline buffering keeps frames together too
	{
		fn := p.Fn("sio", "clientSocket._sendBuffers")
		li := Locks(fn)
		sts := findInstrs(fn, storePred(`s\.sendBuffer`))
		appends := 0
		for _, st := range sts {
			v := Term(st.(*ssa.Store).Val)
			if v == "nil" {
				// the buffer may be emptied here only by sending what it held, ahead of the new packet and in the same
				// call: the store is followed on every path by an enqueue that carries a slice of len(s.sendBuffer)
				// elements in front
				sent := false
				for _, x := range CallsTo(Calls(fn), `\(\*sio\.Manager\)\.packet|\(\*sio\.packetQueue\)\.add`) {
					_, older := wholePacketArg(x.Arg(0), "len(buffers)")
					for _, o := range older {
						if o == "len(s.sendBuffer)" {
							if skip, _ := CanReachExitAvoiding(fn, st, func(in ssa.Instruction) bool { return in == x.Instr }); !skip {
								sent = true
							}
						}
					}
				}
				c.Ob("C02-D1", "sio.clientSocket._sendBuffers/buffer-emptied-only-by-sending", st.Pos(), sent && li.HoldsW(st, "s.sendBufferMu"), "s.sendBuffer is cleared without its frames being handed to the queue in front of the new packet (under sendBufferMu); held="+li.Held(st).String())
				continue
			}
			appends++
			c.Ob("C02-D1", "sio.clientSocket._sendBuffers/offline-append", st.Pos(), strings.HasPrefix(v, "append(s.sendBuffer, make(") && li.HoldsW(st, "s.sendBufferMu") && !inLoop(st.Block()), "offline frames stored as "+v+" held="+li.Held(st).String()+" (expected one append of all frames under sendBufferMu)")
		}
		if appends != 1 {
			c.Ob("C02-D1", "sio.clientSocket._sendBuffers/offline-append", fn.Pos(), false, fmt.Sprintf("expected exactly one append to s.sendBuffer, found %d", appends))
		}
	}

	c.Rule("C02-D2", "single drainer: pollAndSend is started with `go` exactly once per created queue (newServerConn, Manager.connect), never in a loop, on the queue created in that function", 4)
	{
		n := 0
		for _, fn := range p.SrcFuncs() {
			for _, cs := range CallsTo(Calls(fn), `\(\*sio\.packetQueue\)\.pollAndSend`) {
				n++
				top := FuncName(EnclosingTop(fn))
				okTop := top == "sio.newServerConn" || top == "(*sio.Manager).connect"
				c.Ob("C02-D2", "pollAndSend<-"+FuncName(fn), cs.Pos(), okTop && cs.IsGo() && !inLoop(cs.Instr.Block()) && fn.Parent() == nil, "pollAndSend started from "+FuncName(fn)+fmt.Sprintf(" (go=%v, inLoop=%v): a second drainer on a queue reorders packets", cs.IsGo(), inLoop(cs.Instr.Block())))
			}
		}
		c.Ob("C02-D2", "pollAndSend/sites", p.Fn("sio", "packetQueue.pollAndSend").Pos(), n == 2, fmt.Sprintf("%d start sites of pollAndSend (expected 2)", n))
		// per function: exactly one go pollAndSend
		for _, fnn := range []string{"newServerConn", "Manager.connect"} {
			fn := p.Fn("sio", fnn)
			k := len(CallsTo(Calls(fn), `\(\*sio\.packetQueue\)\.pollAndSend`))
			c.Ob("C02-D2", "sio."+fnn+"/one-drainer", fn.Pos(), k == 1, fmt.Sprintf("%d drainers started in %s (expected 1)", k, fnn))
			// the drained queue is the one created here
			for _, cs := range CallsTo(Calls(fn), `\(\*sio\.packetQueue\)\.pollAndSend`) {
				recv := stripAmp(Term(cs.Common().Args[0]))
				created := false
				for _, nq := range CallsTo(Calls(fn), `sio\.newPacketQueue`) {
					// stored into the field that recv reads
					for _, r := range *nq.Instr.(*ssa.Call).Referrers() {
						if st, ok := r.(*ssa.Store); ok && Addr(st.Addr) == recv {
							created = Dominates(st, cs.Instr)
						}
					}
				}
				if fnn == "newServerConn" {
					// queue created in the composite literal of c
					created = created || len(CallsTo(Calls(fn), `sio\.newPacketQueue`)) == 1
				}
				c.Ob("C02-D2", "sio."+fnn+"/drains-new-queue", cs.Pos(), created, "the drainer is started on "+recv+", which is not provably the queue created in this function")
			}
		}
	}

	c.Rule("C02-D3", "who may send: inside package sio Socket.Send is called only by the drainer; inside engine.io every Send forwards the caller's own parameter, a freshly built non-Message control packet, or (upgradeTo) the old transport's queued packets", 10)
	{
		// sio: calls of Send on eio socket interfaces
		for _, fn := range p.SrcFuncs() {
			if fn.Pkg == nil && fn.Parent() == nil {
				continue
			}
			top := EnclosingTop(fn)
			if top.Pkg == nil || top.Pkg.Pkg.Path() != modPath {
				continue
			}
			for _, cs := range Calls(fn) {
				cc := cs.Common()
				if !cc.IsInvoke() || cc.Method.Name() != "Send" {
					continue
				}
				if !strings.Contains(cs.Name, "eio.") {
					continue
				}
				okc := FuncName(top) == "(*sio.packetQueue).pollAndSend"
				c.Ob("C02-D3", "sio-Send<-"+FuncName(fn), cs.Pos(), okc, cs.Name+" called from "+FuncName(fn)+": packets that bypass the queue can overtake queued ones")
			}
		}
		// eio: argument shapes of every Send
		for _, fn := range p.SrcFuncs() {
			top := EnclosingTop(fn)
			if top.Pkg == nil || top.Pkg.Pkg.Path() != modPath+"/engine.io" {
				continue
			}
			for _, cs := range Calls(fn) {
				n, isSend := isMethodNamed(cs.Common(), "Send")
				if !isSend || n != "Send" {
					continue
				}
				if !strings.Contains(cs.Name, "eio.") {
					continue
				}
				cc := cs.Common()
				var args []ssa.Value
				if cc.IsInvoke() {
					args = cc.Args
				} else {
					args = cc.Args[1:]
				}
				ok, why := sendArgAllowed(fn, args)
				c.Ob("C02-D3", "eio-Send@"+FuncName(fn), cs.Pos(), ok, cs.Name+" in "+FuncName(fn)+": "+why)
			}
		}
	}

	c.Rule("C02-D5", "upgrade keeps order: the packets still queued on the old transport are re-sent on the new one inside the write-locked swap region, and the UPGRADE packet is sent inside it (shared with C07-D2) — a Send that slips in between would overtake earlier packets", 12)
	swapRegion(c, "C02-D5")

	c.Rule("C02-D4", "no goroutine hop on the receive path: no `go` statement lies on a call path from onEIOPacket (server/client) to (*eventHandler).call — handler entry order equals arrival order", 2)
	goHops(c, "C02-D4")

	c.Rule("C02-D7", "queued frames are not overwritten or stranded: get() of both queues resets the field to nil (it does not keep the backing array the consumer is still reading), and packets are handed to the current transport "+
		"under transportMu (shared with C07-D8)", 4)
	queueGetResets(c, "C02-D7")
	queueOnlyTailAppendOrEmptied(c, "C02-D7")
	sendUnderTransportLock(c, "C02-D7")

	c.Rule("C02-D8", "nothing is put back: a function that takes packets out of a queue (pollQueue.get/poll, packetQueue.get/poll) adds none to that queue, itself, in its closures and private helpers, or through a module "+
		"function it calls — a re-queued remainder lands behind packets sent in the meantime (order lost, binary frames separated from their header)", 4)
	noPutBack(c, "C02-D8")

	c.Rule("C02-D6", "transports hand packets over synchronously and in arrival order: every Callbacks.OnPacket call of the transports and of the Engine.IO sockets is a plain call on the transport's own reading goroutine "+
		"(not `go`, not deferred, not inside a closure started with `go`), the Engine.IO layer forwards to the Socket.IO callbacks the same way, and the polling server answers a POST only after OnPacket returned "+
		"(the next POST of the same client is sent after that answer: answering first lets two payloads be processed concurrently)", 9)
	{
		n := 0
		isOnPacket := func(in ssa.Instruction) bool {
			ci, ok := in.(ssa.CallInstruction)
			if !ok {
				return false
			}
			name := calleeName(ci.Common())
			return name == "(*transport.Callbacks).OnPacket" || strings.HasSuffix(name, ".OnPacket") && strings.HasPrefix(name, "dyn:") && strings.Contains(name, "allbacks")
		}
		for _, fn := range pkgFuncs(p, map[string]bool{"polling": true, "websocket": true, "webtransport": true, "eio": true}) {
			for _, in := range findInstrs(fn, isOnPacket) {
				n++
				_, isCall := in.(*ssa.Call)
				c.Ob("C02-D6", FuncName(fn)+"/OnPacket-synchronous", in.Pos(), isCall, "received packets are handed to OnPacket through a `go` or `defer` statement: payloads of one peer are processed concurrently or late, frames and events can overtake each other")
				// the enclosing closure chain is not started with `go`
				for f := fn; f.Parent() != nil; f = f.Parent() {
					started := false
					for _, b := range f.Parent().Blocks {
						for _, i2 := range b.Instrs {
							if g, ok := i2.(*ssa.Go); ok {
								if mc, ok := g.Call.Value.(*ssa.MakeClosure); ok && mc.Fn == ssa.Value(f) {
									started = true
								} else if fv, ok := g.Call.Value.(*ssa.Function); ok && fv == f {
									started = true
								}
							}
						}
					}
					c.Ob("C02-D6", FuncName(fn)+"/OnPacket-not-in-go-closure", in.Pos(), !started, "OnPacket is called from a closure that is started with `go` per batch of packets")
				}
			}
		}
		if n < 8 {
			c.Undecided("C02-D6: found %d Callbacks.OnPacket call sites in the transports and Engine.IO sockets, expected at least 8", n)
		}
		// polling server: the POST is answered after OnPacket returned
		hd := p.Fn("polling", "ServerTransport.handleDataRequest")
		ons := findInstrs(hd, isOnPacket)
		isOK := func(in ssa.Instruction) bool {
			call, ok := in.(*ssa.Call)
			if !ok || !call.Call.IsInvoke() {
				return false
			}
			switch call.Call.Method.Name() {
			case "WriteHeader":
				k, isK := call.Call.Args[0].(*ssa.Const)
				return isK && k.Value != nil && k.Int64() == 200
			}
			return false
		}
		if len(ons) != 1 {
			c.Ob("C02-D6", "polling.ServerTransport.handleDataRequest/answers-after-OnPacket", hd.Pos(), false, fmt.Sprintf("expected one OnPacket call in the POST handler, found %d", len(ons)))
		} else {
			early, trail := CanReachAvoiding(hd, nil, isOK, func(in ssa.Instruction) bool { return in == ons[0] })
			nOK := len(findInstrs(hd, isOK))
			c.Ob("C02-D6", "polling.ServerTransport.handleDataRequest/answers-after-OnPacket", ons[0].Pos(), !early && nOK >= 1, fmt.Sprintf("the POST can be answered 200 before OnPacket ran (%d success replies found): %s", nOK, trailString(p, trail)))
		}
	}
}

// sendArgAllowed classifies the variadic argument of an engine.io Send.
func sendArgAllowed(fn *ssa.Function, args []ssa.Value) (bool, string) {
	if len(args) != 1 {
		return false, "unexpected argument count"
	}
	a := args[0]
	// forwarded parameter (or a sub-slice of it, through any number of phis)
	if par := sliceRootParam(a); par != nil {
		return true, "forwards (a sub-slice of) its own parameter `" + vname(par) + "`"
	}
	// varargs array holding single packets: new [1]*Packet ; [0] = X ; slice
	if sl, ok := a.(*ssa.Slice); ok {
		if al, ok := sl.X.(*ssa.Alloc); ok {
			all := true
			var descr []string
			for _, r := range *al.Referrers() {
				ia, ok := r.(*ssa.IndexAddr)
				if !ok {
					continue
				}
				for _, r2 := range *ia.Referrers() {
					st, ok := r2.(*ssa.Store)
					if !ok {
						continue
					}
					t := Term(st.Val)
					descr = append(descr, t)
					switch {
					case strings.HasPrefix(t, "eioparser.NewPacket("):
						// constant non-Message type
						call := st.Val.(*ssa.Extract).Tuple.(*ssa.Call)
						k, isC := call.Call.Args[0].(*ssa.Const)
						if !isC || k.Int64() == 4 {
							all = false
						}
					case strings.Contains(t, ".QueuedPackets()["):
					default:
						if _, isPar := st.Val.(*ssa.Parameter); !isPar {
							all = false
						}
					}
				}
			}
			return all, "sends " + strings.Join(descr, ", ") + " (allowed: NewPacket with a constant non-Message type, a parameter, or an element of old.QueuedPackets())"
		}
	}
	return false, "sends " + Term(a) + ", which is none of the allowed shapes"
}

func goHops(c *Ctx, rule string) {
	p := c.P
	target := p.Fn("sio", "eventHandler.call")
	cg := p.CallGraph()
	seenSite := map[ssa.Instruction]bool{}
	for _, entry := range []string{"serverConn.onEIOPacket", "Manager.onEIOPacket"} {
		from := p.Fn("sio", entry)
		// everything reachable (any edge kind), restricted to module functions and
		// to third-party nodes only as leaves
		all := p.Reach(from, func(e *callgraph.Edge) bool { return true }, false)
		if _, ok := all[target]; !ok {
			c.Ob(rule, "sio."+entry+"/reaches-handler", from.Pos(), false, "(*eventHandler).call is not reachable from "+entry+" in the call graph: events are never dispatched (or the graph is blind)")
			continue
		}
		// a `go` edge g is a hop if reachable(from → g.Caller) and reachable(g.Callee → target)
		found := 0
		var fns []*ssa.Function
		for fn := range all {
			fns = append(fns, fn)
		}
		sort.Slice(fns, func(i, j int) bool { return FuncName(fns[i]) < FuncName(fns[j]) })
		for _, fn := range fns {
			n := cg.Nodes[fn]
			if n == nil || !p.inModule(fn) {
				continue
			}
			for _, e := range n.Out {
				if e.Site == nil || edgeKind(e) != EdgeGo || seenSite[e.Site] {
					continue
				}
				sub := p.Reach(e.Callee.Func, func(e *callgraph.Edge) bool { return true }, false)
				if _, ok := sub[target]; !ok {
					continue
				}
				seenSite[e.Site] = true
				found++
				path := append(pathTo(all, fn), "go→"+strings.Join(pathTo(sub, target), "→"))
				c.Ob(rule, "go@"+FuncName(originOf(fn)), e.Site.Pos(), false, "a goroutine is started between frame arrival and handler entry: "+strings.Join(path, "→")+"; two events of one emitter can enter their handlers in either order")
			}
		}
		if found == 0 && len(seenSite) == 0 {
			c.Ob(rule, "sio."+entry+"/no-hop", from.Pos(), true, "no go statement between "+entry+" and (*eventHandler).call")
		}
	}
}

// sliceRootParam: if v is built only from re-slicings and phis of one
// parameter, return that parameter.
func sliceRootParam(v ssa.Value) *ssa.Parameter {
	var par *ssa.Parameter
	ok := true
	seen := map[ssa.Value]bool{}
	var walk func(x ssa.Value)
	walk = func(x ssa.Value) {
		if seen[x] || !ok {
			return
		}
		seen[x] = true
		switch x := x.(type) {
		case *ssa.Slice:
			walk(x.X)
		case *ssa.Phi:
			for _, e := range x.Edges {
				walk(e)
			}
		case *ssa.Parameter:
			if par == nil {
				par = x
			} else if par != x {
				ok = false
			}
		default:
			ok = false
		}
	}
	walk(v)
	if !ok {
		return nil
	}
	return par
}
