package main

// C05 — namespace isolation.

import (
	"fmt"
	"strings"

	"golang.org/x/tools/go/ssa"
)

func init() {
	register(&PropertySpec{
		ID:         "C05",
		NotDecided: "absence of cross-namespace leaks for all interleavings of several namespaces (a history property); decided are the routing key and its normalisation, per-namespace allocation of adapter state and ack counters, the exactly-one-of connect / dispatch / close shape, attach-only-after-accept, routable-before-announced, and that a namespace disconnect touches only its own socket.",
		Run:        runC05,
	})
}

func runC05(c *Ctx) {
	p := c.P

	c.Rule("C05-D1", "routing key: every decoded packet is routed by its header namespace (normalised \"\" → \"/\" before lookup on both sides; Of()/socket() normalise names the same way)", 10)
	dispatchKeys(c, "C05-D1")
	for _, a := range []struct{ fn, lookup string }{
		{"serverConn.onParserFinish", `\(\*sio\.serverSocketStore\)\.getByNsp`},
		{"Manager.onParserFinish", `\(\*sio\.clientSocketStore\)\.get`},
	} {
		top := p.Fn("sio", a.fn)
		done := false
		for _, fn := range WithAnons(top) {
			lk := CallsTo(Calls(fn), a.lookup)
			if len(lk) == 0 {
				continue
			}
			done = true
			nsf := p.Field("parser", "PacketHeader", "Namespace")
			norm := findInstrs(fn, func(in ssa.Instruction) bool {
				return fieldStorePred(nsf)(in) && Term(in.(*ssa.Store).Val) == `"/"`
			})
			ok := len(norm) == 1 && HasGuard(norm[0], `\(header\.Namespace == ""\)==true`)
			c.Ob("C05-D1", "sio."+a.fn+"/normalise", lk[0].Pos(), ok, "an empty header namespace must be replaced by \"/\" (only then) before the lookup")
			if ok {
				// on the empty-namespace path the normalisation precedes the lookup
				early, trail := PrunedCanReach(fn, nil, []Assume{{`\(header\.Namespace == ""\)`, true}}, func(in ssa.Instruction) bool { return in == lk[0].Instr }, func(in ssa.Instruction) bool { return in == norm[0] })
				c.Ob("C05-D1", "sio."+a.fn+"/normalise-before-lookup", lk[0].Pos(), !early, "lookup reachable before normalisation: "+trailString(p, trail))
			}
		}
		if !done {
			c.Ob("C05-D1", "sio."+a.fn+"/lookup", top.Pos(), false, "no namespace lookup found")
		}
	}
	{
		fn := p.Fn("sio", "Server.Of")
		cs := CallsTo(Calls(fn), `\(\*sio\.nspStore\)\.getOrCreate`)
		ok := len(cs) == 1 && strings.Contains(Term(cs[0].Arg(0)), `("/" + namespace)`)
		c.Ob("C05-D1", "sio.Server.Of/normalise", fn.Pos(), ok, "Of() must prefix names lacking a leading slash with \"/\" before getOrCreate")
		fn2 := p.Fn("sio", "Manager.socket")
		g := CallsTo(Calls(fn2), `\(\*sio\.clientSocketStore\)\.get`)
		ok2 := len(g) == 1 && strings.Contains(Term(g[0].Arg(0)), `"/"`) && strings.Contains(Term(g[0].Arg(0)), `("/" + namespace)`)
		c.Ob("C05-D1", "sio.Manager.socket/normalise", fn2.Pos(), ok2, "Manager.socket must normalise \"\" to \"/\" and prefix a missing slash before the store lookup")
		nc := CallsTo(Calls(fn2), `sio\.newClientSocket`)
		ok3 := len(nc) == 1 && len(g) == 1 && Term(nc[0].Arg(2)) == Term(g[0].Arg(0))
		c.Ob("C05-D1", "sio.Manager.socket/same-key", fn2.Pos(), ok3, "the socket must be created under the same (normalised) namespace it is looked up by")
	}
	// store keys: sockets are stored under their own namespace
	{
		fn := p.Fn("sio", "serverSocketStore.set")
		ok := false
		for _, in := range findInstrs(fn, func(in ssa.Instruction) bool { _, k := in.(*ssa.MapUpdate); return k }) {
			mu := in.(*ssa.MapUpdate)
			if Term(mu.Map) == "s.socketsByNsp" && Term(mu.Key) == "socket.nsp.Name()" && Term(mu.Value) == "socket" {
				ok = true
			}
		}
		c.Ob("C05-D1", "sio.serverSocketStore.set/key", fn.Pos(), ok, "socketsByNsp must be keyed by the socket's own namespace name")
		fn2 := p.Fn("sio", "clientSocketStore.set")
		ok2 := false
		for _, in := range findInstrs(fn2, func(in ssa.Instruction) bool { _, k := in.(*ssa.MapUpdate); return k }) {
			mu := in.(*ssa.MapUpdate)
			if Term(mu.Map) == "s.sockets" && Term(mu.Key) == "socket.namespace" && Term(mu.Value) == "socket" {
				ok2 = true
			}
		}
		c.Ob("C05-D1", "sio.clientSocketStore.set/key", fn2.Pos(), ok2, "client sockets must be keyed by their own namespace")
		fn3 := p.Fn("sio", "serverSocketStore.getByNsp")
		ok3 := len(findInstrs(fn3, func(in ssa.Instruction) bool {
			l, k := in.(*ssa.Lookup)
			return k && Term(l.X) == "s.socketsByNsp" && Term(l.Index) == "nsp"
		})) == 1
		c.Ob("C05-D1", "sio.serverSocketStore.getByNsp/key", fn3.Pos(), ok3, "getByNsp must index socketsByNsp with its parameter")
	}
	// packets carry the socket's own namespace
	for _, a := range []struct{ fn, want string }{
		{"serverSocket.emit", "s.nsp.Name()"}, {"serverSocket.sendControlPacket", "s.nsp.Name()"}, {"serverSocket.sendAckPacket", "s.nsp.Name()"},
		{"clientSocket.emit", "s.namespace"}, {"clientSocket.sendControlPacket", "s.namespace"}, {"clientSocket.sendAckPacket", "s.namespace"},
	} {
		fn := p.Fn("sio", a.fn)
		nsf := p.Field("parser", "PacketHeader", "Namespace")
		sts := findInstrs(fn, fieldStorePred(nsf))
		ok := len(sts) == 1 && Term(sts[0].(*ssa.Store).Val) == a.want
		v := "<none>"
		if len(sts) > 0 {
			v = Term(sts[0].(*ssa.Store).Val)
		}
		c.Ob("C05-D1", "sio."+a.fn+"/header-namespace", fn.Pos(), ok, "outgoing header namespace = "+v+" (expected "+a.want+")")
	}

	c.Rule("C05-D2", "state per namespace: newNamespace hands the adapter a socket store allocated in the same call; adapter creators return freshly allocated maps; no adapter function writes a package-level variable; ack counters are fields", 5)
	{
		fn := p.Fn("sio", "newNamespace")
		ss := CallsTo(Calls(fn), `sio\.newNspSocketStore`)
		ac := CallsTo(Calls(fn), `dyn:adapterCreator`)
		as := CallsTo(Calls(fn), `sio\.newAdapterSocketStore`)
		ok := len(ss) == 1 && len(ac) == 1 && len(as) == 1 && Term(as[0].Arg(0)) == "sio.newNspSocketStore()" && strings.HasPrefix(Term(ac[0].Common().Args[0]), "sio.newAdapterSocketStore(sio.newNspSocketStore())")
		c.Ob("C05-D2", "sio.newNamespace/own-store", fn.Pos(), ok, "the adapter must be created over the socket store allocated by this very newNamespace call")
		sf := p.Field("sio", "Namespace", "sockets")
		sts := findInstrs(fn, fieldStorePred(sf))
		c.Ob("C05-D2", "sio.newNamespace/sockets-field", fn.Pos(), len(sts) == 1 && Term(sts[0].(*ssa.Store).Val) == "sio.newNspSocketStore()", "Namespace.sockets must be that same store")
		af := p.Field("sio", "Namespace", "adapter")
		sts2 := findInstrs(fn, fieldStorePred(af))
		c.Ob("C05-D2", "sio.newNamespace/adapter-field", fn.Pos(), len(sts2) == 1 && strings.HasPrefix(Term(sts2[0].(*ssa.Store).Val), "dyn:adapterCreator("), "Namespace.adapter must be the adapter created here")
	}
	{
		fn := p.Fn("adapter", "NewInMemoryAdapterCreator")
		if len(fn.AnonFuncs) != 1 {
			c.Ob("C05-D2", "adapter.NewInMemoryAdapterCreator/closure", fn.Pos(), false, "expected one creator closure")
		} else {
			cl := fn.AnonFuncs[0]
			for _, fld := range []string{"rooms", "sids"} {
				fv := p.Field("adapter", "inMemoryAdapter", fld)
				sts := findInstrs(cl, fieldStorePred(fv))
				ok := len(sts) == 1
				if ok {
					_, ok = sts[0].(*ssa.Store).Val.(*ssa.MakeMap)
				}
				c.Ob("C05-D2", "adapter.inMemoryAdapter."+fld+"/fresh", cl.Pos(), ok, "every adapter instance needs its own freshly made "+fld+" map")
			}
			fv := p.Field("adapter", "inMemoryAdapter", "sockets")
			sts := findInstrs(cl, fieldStorePred(fv))
			c.Ob("C05-D2", "adapter.inMemoryAdapter.sockets/own", cl.Pos(), len(sts) == 1 && Term(sts[0].(*ssa.Store).Val) == "socketStore", "the adapter must use the socket store it was given")
		}
		// no writes to package-level variables in package adapter
		n := 0
		for _, f := range p.SrcFuncs() {
			top := EnclosingTop(f)
			if top.Pkg == nil || top.Pkg.Pkg.Path() != modPath+"/adapter" || top.Name() == "init" {
				continue
			}
			for _, in := range findInstrs(f, func(in ssa.Instruction) bool {
				st, ok := in.(*ssa.Store)
				if !ok {
					return false
				}
				_, isG := st.Addr.(*ssa.Global)
				return isG
			}) {
				n++
				c.Ob("C05-D2", "adapter/global-write@"+FuncName(f), in.Pos(), false, "adapter code writes the package-level variable "+Addr(in.(*ssa.Store).Addr)+": state shared by all namespaces")
			}
		}
		c.Ob("C05-D2", "adapter/no-global-state", p.Fn("adapter", "NewInMemoryAdapterCreator").Pos(), n == 0, "package adapter writes package-level state")
		c.Ob("C05-D2", "ack-counters-are-fields", p.Fn("sio", "Namespace.nextAckID").Pos(), p.HasField("sio", "Namespace", "ackID") && p.HasField("sio", "clientSocket", "ackID") && p.HasField("sio", "serverSocket", "acks") && p.HasField("sio", "clientSocket", "acks"), "ack id counters and pending-ack maps must be per namespace / per socket fields")
	}

	c.Rule("C05-D3", "invalid state closes: the per-packet dispatcher calls exactly one of connect / socket.onPacket / conn.close on every path; onPacket only for a joined namespace and a non-CONNECT packet, connect only for CONNECT to a namespace not joined yet", 6)
	{
		top := p.Fn("sio", "serverConn.onParserFinish")
		var fn *ssa.Function
		for _, f := range WithAnons(top) {
			if len(CallsTo(Calls(f), `\(\*sio\.serverSocketStore\)\.getByNsp`)) > 0 {
				fn = f
			}
		}
		if fn == nil {
			c.Ob("C05-D3", "sio.serverConn.onParserFinish/dispatcher", top.Pos(), false, "dispatcher not found")
		} else {
			three := `\(\*sio\.serverConn\)\.connect|\(\*sio\.serverSocket\)\.onPacket|\(\*sio\.serverConn\)\.close`
			skip, trail := CanReachExitAvoiding(fn, nil, callPred(three))
			c.Ob("C05-D3", "sio.serverConn.onParserFinish/one-of-three", fn.Pos(), !skip, "a path neither connects, dispatches nor closes: "+trailString(p, trail))
			for _, cs := range CallsTo(Calls(fn), three) {
				again, _ := CanReachAvoiding(fn, cs.Instr, callPred(`\(\*sio\.serverConn\)\.connect|\(\*sio\.serverSocket\)\.onPacket`), nil)
				c.Ob("C05-D3", "sio.serverConn.onParserFinish/at-most-one@"+shortCallee(cs.Name), cs.Pos(), !again, "after "+cs.Name+" another connect/dispatch is reachable")
			}
			lk := "c.sockets.getByNsp(header.Namespace)#1"
			r1, t1 := PrunedCanReach(fn, nil, []Assume{{regexpQuote(lk), false}}, callPred(`\(\*sio\.serverSocket\)\.onPacket`), nil)
			c.Ob("C05-D3", "sio.serverConn.onParserFinish/dispatch-only-if-joined", fn.Pos(), !r1, "onPacket reachable for a namespace this connection has not joined: "+trailString(p, t1))
			r2, t2 := PrunedCanReach(fn, nil, []Assume{{regexpQuote(lk), true}}, callPred(`\(\*sio\.serverConn\)\.connect`), nil)
			c.Ob("C05-D3", "sio.serverConn.onParserFinish/connect-only-if-new", fn.Pos(), !r2, "connect reachable for an already joined namespace: "+trailString(p, t2))
			r3, t3 := PrunedCanReach(fn, nil, []Assume{{`\(header\.Type == 0\)`, false}, {`\(header\.Type != 0\)`, true}}, callPred(`\(\*sio\.serverConn\)\.connect`), nil)
			c.Ob("C05-D3", "sio.serverConn.onParserFinish/connect-only-for-CONNECT", fn.Pos(), !r3, "connect reachable for a non-CONNECT packet: "+trailString(p, t3))
			r4, t4 := PrunedCanReach(fn, nil, []Assume{{`\(header\.Type == 0\)`, true}, {`\(header\.Type != 0\)`, false}}, callPred(`\(\*sio\.serverSocket\)\.onPacket`), nil)
			c.Ob("C05-D3", "sio.serverConn.onParserFinish/no-dispatch-of-CONNECT", fn.Pos(), !r4, "a second CONNECT for a joined namespace is dispatched instead of closing: "+trailString(p, t4))
			// an error from onPacket closes (fatal)
			for _, cs := range CallsTo(Calls(fn), `\(\*sio\.serverSocket\)\.onPacket`) {
				T := Term(cs.Instr.(*ssa.Call))
				sk, tr := PrunedCanReach(fn, cs.Instr, []Assume{{regexpQuote("(" + T + " != nil)"), true}}, nil, callPred(`\(\*sio\.serverConn\)\.onFatalError`))
				c.Ob("C05-D3", "sio.serverConn.onParserFinish/onPacket-error-fatal", cs.Pos(), !sk, "an error returned by onPacket is not routed to onFatalError: "+trailString(p, tr))
			}
		}
		// unknown packet types are an error on the server socket
		op := p.Fn("sio", "serverSocket.onPacket")
		var as []Assume
		for _, t := range []string{"1", "2", "3", "5", "6"} {
			as = append(as, Assume{`\(header\.Type == ` + t + `\)`, false})
		}
		okErr := true
		for _, b := range op.Blocks {
			if ret, ok := b.Instrs[len(b.Instrs)-1].(*ssa.Return); ok && len(ret.Results) == 1 {
				if reach, _ := PrunedCanReach(op, nil, as, func(in ssa.Instruction) bool { return in == ret }, nil); reach && Term(ret.Results[0]) == "nil" {
					okErr = false
				}
			}
		}
		c.Ob("C05-D3", "sio.serverSocket.onPacket/unknown-type-is-error", op.Pos(), okErr, "a packet type without a case returns nil instead of an error")
	}

	c.Rule("C05-D4", "attach only after accept: the connection registers the socket (sockets.set / nsps.set) only when Namespace.add succeeded, and admission (doConnect) is the only other place that does", 4)
	{
		fn := p.Fn("sio", "serverConn.connect")
		adds := CallsTo(Calls(fn), `\(\*sio\.Namespace\)\.add`)
		if len(adds) != 1 {
			c.Ob("C05-D4", "sio.serverConn.connect/add", fn.Pos(), false, fmt.Sprintf("expected one Namespace.add call, found %d", len(adds)))
		} else {
			T := Term(adds[0].Instr.(*ssa.Call))
			reach, trail := PrunedCanReach(fn, adds[0].Instr, []Assume{{regexpQuote("(" + T + "#1 != nil)"), true}}, callPred(`\(\*sio\.(serverSocketStore|nspStore)\)\.set`), nil)
			c.Ob("C05-D4", "sio.serverConn.connect/no-attach-on-reject", adds[0].Pos(), !reach, "with a rejected add the socket is still registered on the connection: "+trailString(p, trail))
			early, trail := CanReachAvoiding(fn, nil, callPred(`\(\*sio\.(serverSocketStore|nspStore)\)\.set`), func(in ssa.Instruction) bool { return in == adds[0].Instr })
			c.Ob("C05-D4", "sio.serverConn.connect/attach-after-add", adds[0].Pos(), !early, "the socket is registered before Namespace.add ran: "+trailString(p, trail))
			sk, tr := PrunedCanReach(fn, adds[0].Instr, []Assume{{regexpQuote("(" + T + "#1 != nil)"), true}}, nil, callPred(`\(\*sio\.serverConn\)\.connectError`))
			c.Ob("C05-D4", "sio.serverConn.connect/reject-answers-CONNECT_ERROR", adds[0].Pos(), !sk, "a rejected add returns without connectError: "+trailString(p, tr))
		}
		whoMayCall(c, "C05-D4", `\(\*sio\.serverSocketStore\)\.set`, []string{"(*sio.serverConn).connect", "(*sio.Namespace).doConnect"}, true)
		whoMayCall(c, "C05-D4", `\(\*sio\.nspSocketStore\)\.set`, []string{"(*sio.Namespace).doConnect"}, true)
		whoMayCall(c, "C05-D4", `\(\*sio\.Namespace\)\.doConnect`, []string{"(*sio.Namespace).add"}, true)
	}
	// client: connected only by a CONNECT packet
	{
		fv := p.Field("sio", "clientSocket", "state")
		for _, f := range p.SrcFuncs() {
			for _, st := range findInstrs(f, fieldStorePred(fv)) {
				if Term(st.(*ssa.Store).Val) != "0" { // clientSocketConnStateConnected
					continue
				}
				top := FuncName(EnclosingTop(f))
				c.Ob("C05-D4", "clientSocket.state=connected@"+FuncName(f), st.Pos(), top == "(*sio.clientSocket).onConnect", "client socket marked connected in "+FuncName(f)+" (only the CONNECT reply handler may)")
			}
		}
		whoMayCall(c, "C05-D4", `\(\*sio\.clientSocket\)\.onConnect`, []string{"(*sio.clientSocket).onPacket"}, true)
	}

	c.Rule("C05-D5", "routable before announced: the socket is inserted into the connection's socket store before onConnect sends the CONNECT reply, and only onConnect sends it", 3)
	{
		fn := p.Fn("sio", "Namespace.doConnect")
		oc := CallsTo(Calls(fn), `\(\*sio\.serverSocket\)\.onConnect`)
		if len(oc) != 1 {
			c.Ob("C05-D5", "sio.Namespace.doConnect/onConnect", fn.Pos(), false, fmt.Sprintf("expected one onConnect call, found %d", len(oc)))
		} else {
			early, trail := CanReachAvoiding(fn, nil, func(in ssa.Instruction) bool { return in == oc[0].Instr }, func(in ssa.Instruction) bool {
				if !callPred(`\(\*sio\.serverSocketStore\)\.set`)(in) {
					return false
				}
				cl := in.(*ssa.Call)
				return stripAmp(Term(cl.Call.Args[0])) == "socket.conn.sockets" && Term(cl.Call.Args[1]) == "socket"
			})
			c.Ob("C05-D5", "sio.Namespace.doConnect/routable-first", oc[0].Pos(), !early, "onConnect (which sends CONNECT) is reachable before socket.conn.sockets.set(socket): an event sent right after CONNECT finds no socket and closes the connection: "+trailString(p, trail))
			early2, trail2 := CanReachAvoiding(fn, nil, func(in ssa.Instruction) bool { return in == oc[0].Instr }, callPred(`\(\*sio\.nspSocketStore\)\.set`))
			c.Ob("C05-D5", "sio.Namespace.doConnect/listed-first", oc[0].Pos(), !early2, "onConnect reachable before the namespace lists the socket: "+trailString(p, trail2))
		}
		whoMayCall(c, "C05-D5", `\(\*sio\.serverSocket\)\.onConnect`, []string{"(*sio.Namespace).doConnect"}, true)
		// CONNECT control packets are sent by onConnect only
		for _, f := range p.SrcFuncs() {
			for _, cs := range CallsTo(Calls(f), `\(\*sio\.serverSocket\)\.sendControlPacket`) {
				if Term(cs.Arg(0)) == "0" {
					c.Ob("C05-D5", "CONNECT-sent@"+FuncName(f), cs.Pos(), FuncName(f) == "(*sio.serverSocket).onConnect", "a CONNECT packet is sent from "+FuncName(f))
				}
			}
		}
	}

	c.Rule("C05-D7", "namespace prefix in the packet header (shared with C09-D2): the writer emits <nsp>, for every packet type whenever the namespace is neither empty nor \"/\", independent of the attachment and id fields, and the reader parses it for every type in the same position", 30)
	headerLayout(c, "C05-D7")

	c.Rule("C05-D6", "a namespace disconnect touches only its own socket: onDisconnect / Disconnect(false) reach the socket's onClose and never conn.close/disconnectAll; the socket removes only itself from the connection", 4)
	{
		fn := p.FnOpt("sio", "serverSocket.onDisconnect")
		if fn == nil {
			fn = p.Fn("sio", "serverSocket.onPacket") // helper inlined into its only caller
		}
		bad := CallsTo(CallsDeep(fn), `\(\*sio\.serverConn\)\.(close|disconnectAll|onClose)|\(eio\..*\)\.Close`)
		c.Ob("C05-D6", "sio.serverSocket.onDisconnect/own-socket-only", fn.Pos(), len(bad) == 0 && len(CallsTo(Calls(fn), `\(\*sio\.serverSocket\)\.onClose`)) == 1, "a DISCONNECT packet for one namespace must close that socket only")
		d := p.Fn("sio", "serverSocket.Disconnect")
		reach, trail := PrunedCanReach(d, nil, []Assume{{`close`, false}}, callPred(`\(\*sio\.serverConn\)\.(close|disconnectAll)`), nil)
		c.Ob("C05-D6", "sio.serverSocket.Disconnect/false-keeps-connection", d.Pos(), !reach, "Disconnect(false) reaches conn.close/disconnectAll: "+trailString(p, trail))
		rm := p.Fn("sio", "serverConn.remove")
		ok := true
		for _, cs := range CallsTo(Calls(rm), `\(\*sio\.serverSocketStore\)\.(removeByID|getAndRemoveAll)`) {
			if strings.Contains(cs.Name, "getAndRemoveAll") || Term(cs.Arg(0)) != "socket.ID()" {
				ok = false
			}
		}
		c.Ob("C05-D6", "sio.serverConn.remove/only-that-socket", rm.Pos(), ok, "serverConn.remove must remove exactly the given socket")
		cd := p.FnOpt("sio", "clientSocket.onDisconnect")
		if cd == nil {
			cd = p.Fn("sio", "clientSocket.onPacket")
		}
		c.Ob("C05-D6", "sio.clientSocket.onDisconnect/own-socket-only", cd.Pos(), len(CallsTo(Calls(cd), `\(\*sio\.clientSocket\)\.onClose`)) == 1, "client DISCONNECT handling must close this socket")
	}
	c.Rule("C05-D8", "one namespace's end or replay does not leak into another: (a) whatever the close reason, a connected server socket's close body removes the socket from its connection's routing table (conn.remove) and from its namespace "+
		"— a dead socket left routable makes the client's next CONNECT to that namespace an invalid state that closes the whole connection, taking the other namespaces with it (shared with C06-D2); (b) the recovery log keeps the packet's own header, "+
		"so a packet missed in one namespace is replayed with that namespace and not as a root-namespace packet (shared with C08-D1)", 3)
	{
		owner := p.Fn("sio", "serverSocket.onClose")
		body := onceBodyOf(owner, "s.closeOnce")
		if body == nil {
			anchorFail("C05-D8: close body of serverSocket.onClose not found")
		}
		for _, a := range []struct{ what, pat string }{{"conn.remove", `\(\*sio\.serverConn\)\.remove`}, {"nsp.remove", `\(\*sio\.Namespace\)\.remove`}} {
			skip, trail := PrunedCanReach(body, nil, []Assume{{`s\.Connected\(\)`, true}}, nil, callPred(a.pat))
			c.Ob("C05-D8", "sio.serverSocket.onClose/"+a.what, body.Pos(), !skip, "for a connected socket a path through the close body skips "+a.what+": "+trailString(p, trail))
		}
		bc := p.Fn("adapter", "sessionAwareAdapter.Broadcast")
		hf := p.Field("adapter", "PersistedPacket", "Header")
		sts := findInstrs(bc, fieldStorePred(hf))
		if len(sts) == 0 {
			c.Ob("C05-D8", "adapter.sessionAwareAdapter.Broadcast/logged-header", bc.Pos(), false, "the recovery log entry gets no header")
		}
		for _, st := range sts {
			v := st.(*ssa.Store).Val
			ok := v == ssa.Value(bc.Params[1])
			if !ok {
				// a private copy is fine when it carries the namespace
				if al, isAl := v.(*ssa.Alloc); isAl && al.Referrers() != nil {
					for _, r := range *al.Referrers() {
						if fa, isFA := r.(*ssa.FieldAddr); isFA && fieldName(fa.X.Type(), fa.Field) == "Namespace" && fa.Referrers() != nil {
							for _, r2 := range *fa.Referrers() {
								if s2, isSt := r2.(*ssa.Store); isSt && strings.HasSuffix(Term(s2.Val), ".Namespace") {
									ok = true
								}
							}
						}
					}
				}
			}
			c.Ob("C05-D8", "adapter.sessionAwareAdapter.Broadcast/logged-header", st.Pos(), ok, "the recovery log stores "+Term(v)+" as the packet header: not the broadcast's own header and without its Namespace — the replay goes to the root namespace")
		}
	}

	c.Rule("C05-D12", "a namespace that is not joined yet cannot take the connection down: a client socket whose CONNECT is pending sends neither DISCONNECT (F55) nor events (F56) — the server has no socket for that namespace "+
		"yet and answers a packet for it by closing the whole connection, with every other namespace on it", 2)
	pendingSocketSendsNothing(c, "C05-D12")

	c.Rule("C05-D10", "lookups answer from the guarded maps: every value the routing stores' getters (serverSocketStore.getByID/getByNsp, clientSocketStore.get, nspStore.get, nspSocketStore.get) can return is nil or the "+
		"result of a lookup in a map field of the store made while its mutex is held — not a remembered earlier result, which remove() does not invalidate", 5)
	c05LookupsFromGuardedMaps(c, "C05-D10")
	c.Rule("C05-D11", "per-socket protocol state is allocated per socket: every map-typed field of clientSocket / serverSocket that the constructor sets is set to a map made in that call, and no mutex is held by pointer "+
		"(a table taken from the manager or the connection is shared by all namespaces of that connection)", 2)
	c05PerSocketState(c, "C05-D11")

	c.Rule("C05-D9", "one namespace's disconnect does not take the shared connection from the others: Manager.destroy closes the connection only when no socket is active, and a client socket is active from the moment it subscribes to the manager "+
		"(registerSubEvents sets active=true under activeMu; only the deregistration sets it false) — a socket whose CONNECT is still pending must already count, or Disconnect() on a sibling namespace closes the connection under it; "+
		"and the frames of one namespace's packet enter the connection's queue in one call (shared with C02-D1), so another namespace's packet cannot land between a binary event and its attachments", 6)
	{
		af := p.Field("sio", "clientSocket", "active")
		nTrue, nFalse := 0, 0
		for _, f := range p.SrcFuncs() {
			for _, st := range findInstrs(f, fieldStorePred(af)) {
				if rawTop(f) != f && siteOf(f) == nil {
					// closures are attributed to their function below (findInstrs on the top-level function does not descend into them)
				}
				top := FuncName(EnclosingTop(f))
				v := Term(st.(*ssa.Store).Val)
				switch v {
				case "true":
					nTrue++
					li := LocksInherit(f)
					c.Ob("C05-D9", "sio.clientSocket.active=true@"+FuncName(f), st.Pos(), top == "(*sio.clientSocket).registerSubEvents" && li.HoldsW(st, "s.activeMu"), "clientSocket.active is set true in "+FuncName(f)+"; it must be set (under activeMu) when the socket subscribes to the manager, not later: a socket waiting for its CONNECT reply must already keep the connection open")
				case "false":
					nFalse++
					c.Ob("C05-D9", "sio.clientSocket.active=false@"+FuncName(f), st.Pos(), strings.Contains(top, "clientSocket).deregisterSubEvents") || strings.Contains(top, "clientSocket).destroy") || strings.Contains(top, "clientSocket).registerSubEvents"), "clientSocket.active is cleared in "+FuncName(f))
				default:
					c.Ob("C05-D9", "sio.clientSocket.active=?@"+FuncName(f), st.Pos(), false, "clientSocket.active is set to "+v+": it must be true from subscription to deregistration")
				}
			}
		}
		if nTrue == 0 {
			c.Ob("C05-D9", "sio.clientSocket.active=true", p.Fn("sio", "clientSocket.registerSubEvents").Pos(), false, "no place sets clientSocket.active = true")
		}
		// the subscription happens after active=true in the same activeMu region
		rs := p.Fn("sio", "clientSocket.registerSubEvents")
		sets := findInstrs(rs, func(in ssa.Instruction) bool {
			st, ok := in.(*ssa.Store)
			return ok && fieldStorePred(af)(in) && Term(st.Val) == "true"
		})
		subs := findInstrs(rs, callPred(`\(\*sio\.handlerStore\[.*\]\)\.onSubEvent.*`))
		if len(sets) == 1 && len(subs) > 0 {
			okOrder := true
			for _, sb := range subs {
				if !Dominates(sets[0], sb) {
					okOrder = false
				}
			}
			c.Ob("C05-D9", "sio.clientSocket.registerSubEvents/active-before-subscribe", sets[0].Pos(), okOrder, "the socket subscribes to the manager's events before it is marked active")
		}
		// destroy: closes only when no socket is active
		ds := p.Fn("sio", "Manager.destroy")
		cl := findInstrs(ds, callPred(`\(\*sio\.Manager\)\.Close`))
		if len(cl) != 1 {
			c.Ob("C05-D9", "sio.Manager.destroy/closes-when-idle", ds.Pos(), false, fmt.Sprintf("expected one Close call in Manager.destroy, found %d", len(cl)))
		} else {
			acts := findInstrs(ds, callPred(`\(\*sio\.clientSocket\)\.Active`))
			okD := len(acts) >= 1
			detail := "Manager.destroy does not ask the sockets whether they are active"
			for _, a := range acts {
				if r, trail := PrunedCanReach(ds, a, []Assume{{`.*\.Active\(\)`, true}}, func(in ssa.Instruction) bool { return in == cl[0] }, nil); r {
					okD = false
					detail = "Manager.destroy closes the connection although a socket answered that it is still active: " + trailString(p, trail)
				}
			}
			c.Ob("C05-D9", "sio.Manager.destroy/closes-when-idle", cl[0].Pos(), okD, detail)
		}
	}
	atomicAppend(c, "C05-D9", "sio", "packetQueue.add")
	for _, a := range []struct{ fn, callee, lenOf string }{
		{"serverConn.sendBuffers", `\(\*sio\.serverConn\)\.packet|\(\*sio\.packetQueue\)\.add`, "len(buffers)"},
		{"clientSocket._sendBuffers", `\(\*sio\.Manager\)\.packet|\(\*sio\.packetQueue\)\.add`, "len(buffers)"},
	} {
		fn := p.Fn("sio", a.fn)
		cs := CallsTo(Calls(fn), a.callee)
		okOne := len(cs) >= 1
		for i, x := range cs {
			if inLoop(x.Instr.Block()) || x.IsGo() {
				okOne = false
			}
			if w, _ := wholePacketArg(x.Arg(0), a.lenOf); !w {
				okOne = false
			}
			for j, y := range cs {
				if i != j {
					if r, _ := CanReachAvoiding(fn, x.Instr, func(in ssa.Instruction) bool { return in == y.Instr }, nil); r {
						okOne = false // two enqueue calls on one path
					}
				}
			}
		}
		c.Ob("C05-D9", "sio."+a.fn+"/one-enqueue-for-all-frames", fn.Pos(), okOne, "the frames of one packet are not handed to the connection's queue in a single call with the slice of all frames: a packet of another namespace can land between them")
	}

}
