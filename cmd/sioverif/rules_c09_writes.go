package main

// C09-D13: what may be written into the text frame.

import (
	"fmt"
	"go/token"
	"strings"

	"golang.org/x/tools/go/ssa"
)

func c09FrameWriters(c *Ctx) {
	p := c.P
	c.Rule("C09-D13", "what goes into the text frame: in encodeString the buffer receives only the header parts — the type character, the attachment count and '-', the namespace and ',', the decimal ack id — "+
		"and whatever the configured JSON serializer's encoder writes; every other write into the buffer (a hand-made 'fast path' for common payloads) is JSON the serializer did not produce: "+
		"Go quoting is not JSON quoting", 5)
	fn := p.Fn("jsonparser", "Parser.encodeString")
	allowedPart := func(t string) bool {
		switch {
		case t == `"-"`, t == `","`, t == "45", t == "44", t == "45:byte", t == "44:byte":
			return true
		case strings.HasSuffix(t, ".Type.ToChar()"):
			return true
		case regexpMustCompile(`strconv\.(Itoa|FormatInt)\(.*\.Attachments.*\)`).MatchString(t):
			return true
		case strings.HasSuffix(t, ".Namespace"):
			return true
		case regexpMustCompile(`strconv\.FormatUint\(\*.*\.ID, 10\)`).MatchString(t):
			return true
		}
		return false
	}
	var parts func(v ssa.Value) []ssa.Value
	parts = func(v ssa.Value) []ssa.Value {
		if bo, ok := v.(*ssa.BinOp); ok && bo.Op == token.ADD {
			return append(parts(bo.X), parts(bo.Y)...)
		}
		return []ssa.Value{v}
	}
	n := 0
	for _, cs := range CallsDeep(fn) {
		name := cs.Name
		args := cs.Common().Args
		if len(args) == 0 {
			continue
		}
		recvIsBuf := Term(args[0]) == "&buf" || Term(args[0]) == "buf"
		switch {
		case recvIsBuf && regexpMustCompile(`\(\*bytes\.Buffer\)\.(Write|WriteString|WriteByte|WriteRune)`).MatchString(name):
			n++
			bad := ""
			for _, pt := range parts(args[1]) {
				if !allowedPart(Term(pt)) {
					bad = Term(pt)
				}
			}
			c.Ob("C09-D13", fmt.Sprintf("jsonparser.Parser.encodeString/write#%d", n), cs.Pos(), bad == "", fmt.Sprintf("the frame buffer is written with %s, which is neither a header part nor output of the JSON serializer (part: %s)", trunc(Term(args[1]), 80), trunc(bad, 60)))
		case recvIsBuf && regexpMustCompile(`\(\*bytes\.Buffer\)\.(Grow|Bytes|Len|String|Reset|Truncate|Cap)`).MatchString(name):
			// not writes
		default:
			// the buffer handed to somebody: only the serializer's NewEncoder
			for i, a := range args {
				if Term(a) != "&buf" {
					continue
				}
				if i == 0 && strings.HasPrefix(name, "(*bytes.Buffer).") {
					n++
					c.Ob("C09-D13", fmt.Sprintf("jsonparser.Parser.encodeString/write#%d", n), cs.Pos(), false, "unclassified method "+name+" on the frame buffer")
					continue
				}
				n++
				okEnc := strings.HasSuffix(name, ".NewEncoder") && strings.Contains(Term(cs.Common().Value), ".json")
				c.Ob("C09-D13", fmt.Sprintf("jsonparser.Parser.encodeString/buffer-handed-to#%d", n), cs.Pos(), okEnc, "the frame buffer is handed to "+name+": only the configured serializer's NewEncoder may write the JSON part")
			}
		}
	}
	if n < 5 {
		c.Undecided("C09-D13: only %d writes into the frame buffer recognised in encodeString", n)
	}
}

// c09ReconstructorOwnsFrames (C09-D14): the frame list of a new reconstructor is allocated for it.
func c09ReconstructorOwnsFrames(c *Ctx) {
	p := c.P
	c.Rule("C09-D14", "a reconstructor owns its frames: every slice-typed field of the reconstructor built in (*Parser).Add is set to a slice made in that call (a literal, make, or append onto nil/such a slice) — "+
		"not to storage kept in the Parser from an earlier packet, which the next packet overwrites while the decode closure of this one (run later, on another goroutine) still reads it", 1)
	add := p.Fn("jsonparser", "Parser.Add")
	recT := p.Named("jsonparser", "reconstructor")
	n := 0
	for _, f := range append([]*ssa.Function{add}, transparentCalleesOf(add)...) {
		for _, b := range f.Blocks {
			for _, in := range b.Instrs {
				st, ok := in.(*ssa.Store)
				if !ok {
					continue
				}
				fa, ok := st.Addr.(*ssa.FieldAddr)
				if !ok {
					continue
				}
				if _, isAlloc := fa.X.(*ssa.Alloc); !isAlloc {
					continue
				}
				nt, isN := deref(fa.X.Type()).(interface{ Obj() interface{ Name() string } })
				_ = nt
				_ = isN
				if deref(fa.X.Type()).String() != recT.String() {
					continue
				}
				fv := fieldVar(fa.X.Type(), fa.Field)
				if fv == nil || !strings.HasPrefix(fv.Type().Underlying().String(), "[]") {
					continue
				}
				n++
				bad := ""
				seen := map[ssa.Value]bool{}
				var walk func(v ssa.Value)
				walk = func(v ssa.Value) {
					if seen[v] || bad != "" {
						return
					}
					seen[v] = true
					v = resolveParam(v)
					switch x := v.(type) {
					case *ssa.Const:
					case *ssa.MakeSlice:
					case *ssa.Slice:
						if _, isAl := x.X.(*ssa.Alloc); isAl {
							return // slice literal
						}
						walk(x.X)
					case *ssa.Phi:
						for _, e := range x.Edges {
							walk(e)
						}
					case *ssa.Call:
						if bi, isB := x.Call.Value.(*ssa.Builtin); isB && bi.Name() == "append" {
							walk(x.Call.Args[0]) // the base decides whose backing array it is
							return
						}
						bad = Term(v)
					default:
						bad = Term(v)
					}
				}
				walk(st.Val)
				c.Ob("C09-D14", fmt.Sprintf("jsonparser.Parser.Add/reconstructor.%s-fresh#%d", fdisp(fv), n), in.Pos(), bad == "", fmt.Sprintf("reconstructor.%s is built on %s: storage that outlives this packet in the parser is reused by the next one while this packet's decode closure has not run yet (the connection dispatches decode on its own goroutine)", fdisp(fv), trunc(bad, 80)))
			}
		}
	}
	if n == 0 {
		c.Undecided("C09-D14: no slice-typed field of the reconstructor is set in (*Parser).Add")
	}
}
