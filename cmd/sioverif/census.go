package main

// Lock classes, guarded-by census and lock-order graph (A3, interprocedural part).

import (
	"fmt"
	"go/types"
	"os"
	"sort"
	"strings"

	"golang.org/x/tools/go/ssa"
)

// lockClass names the mutex a Lock/Unlock receiver denotes, independent of the
// variable it is reached through: "pkg.Type.field", "pkg.global" or "local:<fn>.<var>".
func lockClass(fn *ssa.Function, recv ssa.Value) string {
	switch x := recv.(type) {
	case *ssa.FieldAddr:
		T := deref(x.X.Type())
		if nt, ok := types.Unalias(T).(*types.Named); ok {
			pk := ""
			if nt.Obj().Pkg() != nil {
				pk, _ = shortOf(nt.Obj().Pkg().Path())
			}
			return pk + "." + nt.Obj().Name() + "." + fieldName(x.X.Type(), x.Field)
		}
		return "?." + fieldName(x.X.Type(), x.Field)
	case *ssa.Global:
		return globalName(x)
	case *ssa.Alloc, *ssa.FreeVar:
		top := EnclosingTop(fn)
		n, _ := varName(x)
		return "local:" + FuncName(top) + "." + n
	case *ssa.UnOp:
		// *(&x.mu) where the field holds a *Mutex (queuedPacket.mu)
		return lockClass(fn, x.X)
	}
	return "?" + Term(recv)
}

type lockAcq struct {
	class string
	mode  LockMode
	instr ssa.Instruction
}

// acquisitions lists lock acquisitions of fn with the classes held (must) at that point.
type heldClasses map[string]LockMode

// classInfo computes per instruction the set of lock CLASSES certainly held.
type classInfo struct {
	fn    *ssa.Function
	li    *LockInfo
	class map[string]string // lock term -> class
}

func newClassInfo(fn *ssa.Function) *classInfo {
	ci := &classInfo{fn: fn, li: Locks(fn), class: map[string]string{}}
	for _, b := range fn.Blocks {
		for _, in := range b.Instrs {
			if op, ok := lockOpOf(in); ok {
				ci.class[op.lock] = lockClass(fn, in.(ssa.CallInstruction).Common().Args[0])
			}
		}
	}
	return ci
}

func (ci *classInfo) held(in ssa.Instruction) heldClasses {
	out := heldClasses{}
	for l, m := range ci.li.Held(in) {
		if c, ok := ci.class[l]; ok {
			out[c] = m
		}
	}
	return out
}

// fnAcquires: lock classes a function acquires itself or through static module
// callees (depth-bounded), not through `go`.
func fnAcquires(p *Program, fn *ssa.Function, depth int, memo map[*ssa.Function]map[string]LockMode, stack map[*ssa.Function]bool) map[string]LockMode {
	if r, ok := memo[fn]; ok {
		return r
	}
	if stack[fn] || depth < 0 || fn.Blocks == nil {
		return map[string]LockMode{}
	}
	stack[fn] = true
	defer delete(stack, fn)
	out := map[string]LockMode{}
	for _, b := range fn.Blocks {
		for _, in := range b.Instrs {
			if op, ok := lockOpOf(in); ok && op.acq {
				c := lockClass(fn, in.(ssa.CallInstruction).Common().Args[0])
				if old, ok := out[c]; !ok || op.mode == LockW || old == 0 {
					out[c] = op.mode
				}
			}
			ci, ok := in.(ssa.CallInstruction)
			if !ok {
				continue
			}
			if _, isGo := in.(*ssa.Go); isGo {
				continue
			}
			// forEach(f, true) runs the handlers on a goroutine of its own: nothing they lock is acquired by this call
			if sc := ci.Common().StaticCallee(); sc != nil && FuncName(originOf(sc)) == "(*sio.handlerStore[T]).forEach" && len(ci.Common().Args) == 3 && Term(ci.Common().Args[2]) == "true" {
				continue
			}
			if sc := ci.Common().StaticCallee(); sc != nil && p.inModule(sc) {
				for c, m := range fnAcquires(p, originOf(sc), depth-1, memo, stack) {
					if old, ok := out[c]; !ok || m == LockW || old == 0 {
						out[c] = m
					}
				}
			} else if useCGForLocks && ci.Common().StaticCallee() == nil {
				// interface / func-value call: callees from the VTA call graph (module functions only)
				if n := p.CallGraph().Nodes[fn]; n != nil {
					for _, e := range n.Out {
						if e.Site != in || !p.inModule(e.Callee.Func) {
							continue
						}
						for c, m := range fnAcquires(p, originOf(e.Callee.Func), depth-1, memo, stack) {
							if old, ok := out[c]; !ok || m == LockW || old == 0 {
								out[c] = m
							}
						}
					}
				}
			}
			// closures passed as arguments run inside the callee (Once.Do, forEach, Each)
			for _, a := range ci.Common().Args {
				if mc, ok := a.(*ssa.MakeClosure); ok {
					for c, m := range fnAcquires(p, mc.Fn.(*ssa.Function), depth-1, memo, stack) {
						if old, ok := out[c]; !ok || m == LockW || old == 0 {
							out[c] = m
						}
					}
				}
			}
		}
	}
	memo[fn] = out
	return out
}

// useCGForLocks: follow interface and func-value calls through the VTA call graph when
// computing which locks a call may acquire (needed to see callbacks that re-enter).
var useCGForLocks = false

type orderEdge struct {
	from, to string
	fn       *ssa.Function
	instr    ssa.Instruction
	via      string
}

// lockOrderEdges: "class B acquired while class A is held", directly or in a
// callee called while A is held.  Held locks are tracked as (term, class)
// pairs; a closure invoked synchronously keeps the creator's terms, so a
// callback that releases the creator's lock before doing more work (the
// adapter's apply) does not produce edges for what it does unlocked.  Other
// callees cannot name the caller's lock, so it counts as held throughout.
func lockOrderEdges(p *Program) []orderEdge {
	var out []orderEdge
	type heldT struct {
		term  string // "" when the lock cannot be named in the current function
		class string
	}
	type memoKey struct {
		fn   *ssa.Function
		held string
	}
	visiting := map[memoKey]bool{}
	done := map[memoKey]bool{}
	var collect func(fn *ssa.Function, outer []heldT, depth int, via string, root *ssa.Function, rootInstr ssa.Instruction)
	collect = func(fn *ssa.Function, outer []heldT, depth int, via string, root *ssa.Function, rootInstr ssa.Instruction) {
		if fn.Blocks == nil || depth < 0 {
			return
		}
		var hs []string
		for _, h := range outer {
			hs = append(hs, h.term+"/"+h.class)
		}
		sort.Strings(hs)
		mk := memoKey{fn, strings.Join(hs, ",")}
		if visiting[mk] || done[mk] {
			return
		}
		visiting[mk] = true
		defer func() { delete(visiting, mk); done[mk] = true }()
		li := LocksInherit(fn)
		ci := map[string]string{}
		for _, b := range fn.Blocks {
			for _, in := range b.Instrs {
				if op, ok := lockOpOf(in); ok {
					ci[op.lock] = lockClass(fn, in.(ssa.CallInstruction).Common().Args[0])
				}
			}
		}
		for _, b := range fn.Blocks {
			for _, in := range b.Instrs {
				// which locks are held here?
				var held []heldT
				for _, h := range outer {
					if h.term != "" {
						if _, tracked := li.Entry[h.term]; tracked {
							if _, still := li.MayHeld(in)[h.term]; !still {
								continue // released by this closure before this point
							}
						}
					}
					held = append(held, h)
				}
				for l := range li.Held(in) {
					if cl, ok := ci[l]; ok {
						dup := false
						for _, h := range held {
							if h.term == l {
								dup = true
							}
						}
						if !dup {
							held = append(held, heldT{l, cl})
						}
					}
				}
				if len(held) == 0 {
					continue
				}
				src, srcIn, v := root, rootInstr, via
				if root == nil {
					src, srcIn, v = fn, in, "direct"
				}
				if op, ok := lockOpOf(in); ok && op.acq && !op.defer_ {
					c := lockClass(fn, in.(ssa.CallInstruction).Common().Args[0])
					for _, h := range held {
						if h.term == op.lock {
							continue // exact re-acquisition is the must-held rule's business
						}
						out = append(out, orderEdge{h.class, c, src, srcIn, v})
					}
					continue
				}
				call, ok := in.(ssa.CallInstruction)
				if !ok {
					continue
				}
				if _, isGo := in.(*ssa.Go); isGo {
					continue
				}
				// forEach(f, true) runs the handlers on a goroutine of its own: the caller's locks are not held in them
				if sc := call.Common().StaticCallee(); sc != nil && FuncName(originOf(sc)) == "(*sio.handlerStore[T]).forEach" && len(call.Common().Args) == 3 && Term(call.Common().Args[2]) == "true" {
					continue
				}
				if _, isDefer := in.(*ssa.Defer); isDefer {
					// a deferred call runs at function exit: the CALLER's locks are still held then;
					// this function's own locks may or may not be (LIFO with its deferred unlocks) — leave those out
					var onlyOuter []heldT
					for _, h := range held {
						for _, o := range outer {
							if o == h {
								onlyOuter = append(onlyOuter, h)
							}
						}
					}
					held = onlyOuter
					if len(held) == 0 {
						continue
					}
				}
				nroot, nrootIn := src, srcIn
				// closures passed as arguments keep the terms
				for _, a := range call.Common().Args {
					if mc, ok := a.(*ssa.MakeClosure); ok {
						collect(mc.Fn.(*ssa.Function), held, depth-1, "via "+FuncName(mc.Fn.(*ssa.Function)), nroot, nrootIn)
					}
				}
				var callees []*ssa.Function
				if sc := call.Common().StaticCallee(); sc != nil {
					if p.inModule(sc) {
						callees = append(callees, originOf(sc))
					}
				} else if useCGForLocks {
					if n := p.CallGraph().Nodes[fn]; n != nil {
						for _, e := range n.Out {
							if e.Site == in && p.inModule(e.Callee.Func) {
								callees = append(callees, originOf(e.Callee.Func))
							}
						}
					}
				}
				// model of the transport callback registry (an atomic.Value hides the flow from VTA):
				// Callbacks.OnClose / OnPacket invoke whatever was given to Callbacks.Set
				if sc := call.Common().StaticCallee(); sc != nil {
					switch FuncName(originOf(sc)) {
					case "(*transport.Callbacks).OnClose":
						callees = append(callees, transportCallbackTargets(p, 1)...)
					case "(*transport.Callbacks).OnPacket":
						callees = append(callees, transportCallbackTargets(p, 0)...)
					}
				}
				if len(callees) == 0 {
					continue
				}
				opaque := make([]heldT, 0, len(held))
				for _, h := range held {
					opaque = append(opaque, heldT{"", h.class})
				}
				for _, cf := range callees {
					collect(cf, opaque, depth-1, "via "+FuncName(cf), nroot, nrootIn)
				}
			}
		}
	}
	for _, fn := range p.SrcFuncs() {
		if fn.Parent() != nil {
			// closures are analysed from their creator when invoked synchronously; standalone otherwise
			if li := LocksInherit(fn); len(li.Entry) > 0 {
				continue
			}
		}
		uses := false
		for _, f := range WithAnons(fn) {
			for _, b := range f.Blocks {
				for _, in := range b.Instrs {
					if _, ok := lockOpOf(in); ok {
						uses = true
					}
				}
			}
		}
		if !uses {
			continue
		}
		collect(fn, nil, 7, "", nil, nil)
	}
	return out
}

// cmdCensus prints, for every struct field of the module that is accessed in
// some function while a mutex field of the same struct is held, how often each
// sibling mutex was held — the statistics used to DISCOVER guarded-by candidates
// (they are then confirmed by reading and frozen in rules_c16.go).
func cmdCensus(args []string) int {
	o := parseOpts(args)
	p := Load(o.repo, "", nil)
	useCGForLocks = true
	type stat struct {
		total   int
		under   map[string]int
		unguard []string
		writes  int
	}
	stats := map[string]*stat{}
	for _, fn := range p.SrcFuncs() {
		var li *LockInfo
		for _, fa := range FieldAccesses(fn) {
			owner := fa.Field.Pkg()
			if owner == nil || !strings.HasPrefix(owner.Path(), modPath) {
				continue
			}
			// owner struct name
			T := deref(fa.Addr.X.Type())
			nt, ok := types.Unalias(T).(*types.Named)
			if !ok {
				continue
			}
			if isSyncLockType(fa.Field.Type()) || isOnceType(fa.Field.Type()) {
				continue
			}
			pk, _ := shortOf(owner.Path())
			key := pk + "." + nt.Obj().Name() + "." + fdisp(fa.Field)
			if li == nil {
				li = Locks(fn)
			}
			s := stats[key]
			if s == nil {
				s = &stat{under: map[string]int{}}
				stats[key] = s
			}
			s.total++
			if fa.Write {
				s.writes++
			}
			any := false
			for l := range li.Held(fa.Instr) {
				if strings.HasPrefix(l, fa.Base+".") {
					s.under[strings.TrimPrefix(l, fa.Base+".")]++
					any = true
				}
			}
			if !any {
				s.unguard = append(s.unguard, FuncName(fn))
			}
		}
	}
	var keys []string
	for k := range stats {
		keys = append(keys, k)
	}
	sort.Strings(keys)
	for _, k := range keys {
		s := stats[k]
		if len(s.under) == 0 {
			continue
		}
		fmt.Fprintf(os.Stdout, "%-50s total=%d writes=%d under=%v unguarded=%v\n", k, s.total, s.writes, s.under, s.unguard)
	}
	fmt.Println("--- lock order edges (class held → class acquired)")
	seen := map[string]bool{}
	for _, e := range lockOrderEdges(p) {
		k := e.from + " → " + e.to
		if seen[k] {
			continue
		}
		seen[k] = true
		fmt.Printf("%s   [%s, %s at %s]\n", k, e.via, FuncName(e.fn), p.Pos(e.instr.Pos()))
	}
	return 0
}

var tcbMemo = map[int][]*ssa.Function{}
var tcbProg *Program

// transportCallbackTargets: the function values passed as argument idx (0 = onPacket,
// 1 = onClose) to (*transport.Callbacks).Set anywhere in the module.
func transportCallbackTargets(p *Program, idx int) []*ssa.Function {
	if tcbProg != p {
		tcbProg = p
		tcbMemo = map[int][]*ssa.Function{}
	}
	if r, ok := tcbMemo[idx]; ok {
		return r
	}
	var out []*ssa.Function
	seen := map[*ssa.Function]bool{}
	for _, fn := range p.SrcFuncs() {
		for _, cs := range CallsTo(Calls(fn), `\(\*transport\.Callbacks\)\.Set`) {
			a := cs.Arg(idx)
			for {
				if ct, ok := a.(*ssa.ChangeType); ok {
					a = ct.X
					continue
				}
				break
			}
			var f *ssa.Function
			switch x := a.(type) {
			case *ssa.MakeClosure:
				f = x.Fn.(*ssa.Function)
			case *ssa.Function:
				f = x
			}
			if f != nil && !seen[f] {
				seen[f] = true
				out = append(out, f)
			}
		}
	}
	tcbMemo[idx] = out
	return out
}
