package main

// Lock classes, guarded-by census and lock-order graph (A3, interprocedural part).

import (
	"fmt"
	"go/types"
	"os"
	"sort"
	"strings"

	"golang.org/x/tools/go/ssa"
)

// lockClass names the mutex a Lock/Unlock receiver denotes, independent of the
// variable it is reached through: "pkg.Type.field", "pkg.global" or "local:<fn>.<var>".
func lockClass(fn *ssa.Function, recv ssa.Value) string {
	switch x := recv.(type) {
	case *ssa.FieldAddr:
		T := deref(x.X.Type())
		if nt, ok := types.Unalias(T).(*types.Named); ok {
			pk := ""
			if nt.Obj().Pkg() != nil {
				pk, _ = shortOf(nt.Obj().Pkg().Path())
			}
			return pk + "." + nt.Obj().Name() + "." + fieldName(x.X.Type(), x.Field)
		}
		return "?." + fieldName(x.X.Type(), x.Field)
	case *ssa.Global:
		return globalName(x)
	case *ssa.Alloc, *ssa.FreeVar:
		top := EnclosingTop(fn)
		n, _ := varName(x)
		return "local:" + FuncName(top) + "." + n
	case *ssa.UnOp:
		// *(&x.mu) where the field holds a *Mutex (queuedPacket.mu)
		return lockClass(fn, x.X)
	}
	return "?" + Term(recv)
}

type lockAcq struct {
	class string
	mode  LockMode
	instr ssa.Instruction
}

// acquisitions lists lock acquisitions of fn with the classes held (must) at that point.
type heldClasses map[string]LockMode

// classInfo computes per instruction the set of lock CLASSES certainly held.
type classInfo struct {
	fn    *ssa.Function
	li    *LockInfo
	class map[string]string // lock term -> class
}

func newClassInfo(fn *ssa.Function) *classInfo {
	ci := &classInfo{fn: fn, li: Locks(fn), class: map[string]string{}}
	for _, b := range fn.Blocks {
		for _, in := range b.Instrs {
			if op, ok := lockOpOf(in); ok {
				ci.class[op.lock] = lockClass(fn, in.(ssa.CallInstruction).Common().Args[0])
			}
		}
	}
	return ci
}

func (ci *classInfo) held(in ssa.Instruction) heldClasses {
	out := heldClasses{}
	for l, m := range ci.li.Held(in) {
		if c, ok := ci.class[l]; ok {
			out[c] = m
		}
	}
	return out
}

// fnAcquires: lock classes a function acquires itself or through static module
// callees (depth-bounded), not through `go`.
func fnAcquires(p *Program, fn *ssa.Function, depth int, memo map[*ssa.Function]map[string]LockMode, stack map[*ssa.Function]bool) map[string]LockMode {
	if r, ok := memo[fn]; ok {
		return r
	}
	if stack[fn] || depth < 0 || fn.Blocks == nil {
		return map[string]LockMode{}
	}
	stack[fn] = true
	defer delete(stack, fn)
	out := map[string]LockMode{}
	for _, b := range fn.Blocks {
		for _, in := range b.Instrs {
			if op, ok := lockOpOf(in); ok && op.acq {
				c := lockClass(fn, in.(ssa.CallInstruction).Common().Args[0])
				if old, ok := out[c]; !ok || op.mode == LockW || old == 0 {
					out[c] = op.mode
				}
			}
			ci, ok := in.(ssa.CallInstruction)
			if !ok {
				continue
			}
			if _, isGo := in.(*ssa.Go); isGo {
				continue
			}
			if sc := ci.Common().StaticCallee(); sc != nil && p.inModule(sc) {
				for c, m := range fnAcquires(p, originOf(sc), depth-1, memo, stack) {
					if old, ok := out[c]; !ok || m == LockW || old == 0 {
						out[c] = m
					}
				}
			}
			// closures passed as arguments run inside the callee (Once.Do, forEach, Each)
			for _, a := range ci.Common().Args {
				if mc, ok := a.(*ssa.MakeClosure); ok {
					for c, m := range fnAcquires(p, mc.Fn.(*ssa.Function), depth-1, memo, stack) {
						if old, ok := out[c]; !ok || m == LockW || old == 0 {
							out[c] = m
						}
					}
				}
			}
		}
	}
	memo[fn] = out
	return out
}

type orderEdge struct {
	from, to string
	fn       *ssa.Function
	instr    ssa.Instruction
	via      string
}

// lockOrderEdges: "class B acquired while class A is held", directly or in a
// static callee called while A is held.
func lockOrderEdges(p *Program) []orderEdge {
	var out []orderEdge
	memo := map[*ssa.Function]map[string]LockMode{}
	for _, fn := range p.SrcFuncs() {
		uses := false
		for _, b := range fn.Blocks {
			for _, in := range b.Instrs {
				if _, ok := lockOpOf(in); ok {
					uses = true
				}
			}
		}
		if !uses {
			continue
		}
		ci := newClassInfo(fn)
		for _, b := range fn.Blocks {
			for _, in := range b.Instrs {
				h := ci.held(in)
				if len(h) == 0 {
					continue
				}
				if op, ok := lockOpOf(in); ok && op.acq && !op.defer_ {
					c := lockClass(fn, in.(ssa.CallInstruction).Common().Args[0])
					for a := range h {
						out = append(out, orderEdge{a, c, fn, in, "direct"})
					}
					continue
				}
				call, ok := in.(ssa.CallInstruction)
				if !ok {
					continue
				}
				if _, isGo := in.(*ssa.Go); isGo {
					continue
				}
				if _, isDefer := in.(*ssa.Defer); isDefer {
					continue
				}
				var callees []*ssa.Function
				if sc := call.Common().StaticCallee(); sc != nil && p.inModule(sc) {
					callees = append(callees, originOf(sc))
				}
				for _, a := range call.Common().Args {
					if mc, ok := a.(*ssa.MakeClosure); ok {
						callees = append(callees, mc.Fn.(*ssa.Function))
					}
				}
				for _, cf := range callees {
					for c := range fnAcquires(p, cf, 4, memo, map[*ssa.Function]bool{}) {
						for a := range h {
							out = append(out, orderEdge{a, c, fn, in, "via " + FuncName(cf)})
						}
					}
				}
			}
		}
	}
	return out
}

// cmdCensus prints, for every struct field of the module that is accessed in
// some function while a mutex field of the same struct is held, how often each
// sibling mutex was held — the statistics used to DISCOVER guarded-by candidates
// (they are then confirmed by reading and frozen in rules_c16.go).
func cmdCensus(args []string) int {
	o := parseOpts(args)
	p := Load(o.repo, "", nil)
	type stat struct {
		total   int
		under   map[string]int
		unguard []string
		writes  int
	}
	stats := map[string]*stat{}
	for _, fn := range p.SrcFuncs() {
		var li *LockInfo
		for _, fa := range FieldAccesses(fn) {
			owner := fa.Field.Pkg()
			if owner == nil || !strings.HasPrefix(owner.Path(), modPath) {
				continue
			}
			// owner struct name
			T := deref(fa.Addr.X.Type())
			nt, ok := types.Unalias(T).(*types.Named)
			if !ok {
				continue
			}
			if isSyncLockType(fa.Field.Type()) || isOnceType(fa.Field.Type()) {
				continue
			}
			pk, _ := shortOf(owner.Path())
			key := pk + "." + nt.Obj().Name() + "." + fa.Field.Name()
			if li == nil {
				li = Locks(fn)
			}
			s := stats[key]
			if s == nil {
				s = &stat{under: map[string]int{}}
				stats[key] = s
			}
			s.total++
			if fa.Write {
				s.writes++
			}
			any := false
			for l := range li.Held(fa.Instr) {
				if strings.HasPrefix(l, fa.Base+".") {
					s.under[strings.TrimPrefix(l, fa.Base+".")]++
					any = true
				}
			}
			if !any {
				s.unguard = append(s.unguard, FuncName(fn))
			}
		}
	}
	var keys []string
	for k := range stats {
		keys = append(keys, k)
	}
	sort.Strings(keys)
	for _, k := range keys {
		s := stats[k]
		if len(s.under) == 0 {
			continue
		}
		fmt.Fprintf(os.Stdout, "%-50s total=%d writes=%d under=%v unguarded=%v\n", k, s.total, s.writes, s.under, s.unguard)
	}
	fmt.Println("--- lock order edges (class held → class acquired)")
	seen := map[string]bool{}
	for _, e := range lockOrderEdges(p) {
		k := e.from + " → " + e.to
		if seen[k] {
			continue
		}
		seen[k] = true
		fmt.Printf("%s   [%s, %s at %s]\n", k, e.via, FuncName(e.fn), p.Pos(e.instr.Pos()))
	}
	return 0
}
