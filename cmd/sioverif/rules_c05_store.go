package main

// C05-D10: the routing stores answer lookups from their guarded maps only.
// C05-D11: per-socket protocol state is allocated per socket.

import (
	"fmt"
	"go/types"
	"strings"

	"golang.org/x/tools/go/ssa"
)

type storeGetter struct{ short, typ, name string }

func c05LookupsFromGuardedMaps(c *Ctx, rule string) {
	lookupsFromGuardedMaps(c, rule, []storeGetter{
		{"sio", "serverSocketStore", "getByID"}, {"sio", "serverSocketStore", "getByNsp"}, {"sio", "clientSocketStore", "get"}, {"sio", "nspStore", "get"}, {"sio", "nspSocketStore", "get"},
	})
}

func lookupsFromGuardedMaps(c *Ctx, rule string, getters []storeGetter) {
	p := c.P
	for _, g := range getters {
		fn := p.FnOpt(g.short, g.typ+"."+g.name)
		if fn == nil {
			c.Undecided("%s: %s.%s not found", rule, g.typ, g.name)
			continue
		}
		li := Locks(fn)
		for _, b := range fn.Blocks {
			ret, ok := b.Instrs[len(b.Instrs)-1].(*ssa.Return)
			if !ok || len(ret.Results) == 0 {
				continue
			}
			bad := ""
			seen := map[ssa.Value]bool{}
			var walk func(v ssa.Value)
			walk = func(v ssa.Value) {
				if seen[v] || bad != "" {
					return
				}
				seen[v] = true
				switch x := v.(type) {
				case *ssa.Const:
					if x.Value != nil {
						bad = Term(v)
					}
				case *ssa.Phi:
					for _, e := range x.Edges {
						walk(e)
					}
				case *ssa.Extract:
					walk(x.Tuple)
				case *ssa.MakeInterface:
					walk(x.X)
				case *ssa.ChangeInterface:
					walk(x.X)
				case *ssa.UnOp:
					// a named result kept in memory: every store to it
					if al, isAl := x.X.(*ssa.Alloc); isAl && al.Referrers() != nil {
						for _, r := range *al.Referrers() {
							if st, isSt := r.(*ssa.Store); isSt && st.Addr == ssa.Value(al) {
								walk(st.Val)
							}
						}
						return
					}
					bad = Term(v)
				case *ssa.Lookup:
					// the store's own map, read under its mutex
					ld, isLd := x.X.(*ssa.UnOp)
					okMap := false
					if isLd {
						if fa, isFa := ld.X.(*ssa.FieldAddr); isFa {
							if _, isPar := fa.X.(*ssa.Parameter); isPar && fa.X == ssa.Value(fn.Params[0]) {
								okMap = true
							}
						}
					}
					if !okMap {
						bad = "a lookup in " + Term(x.X) + " (not a map field of the store)"
					} else if !li.HoldsAny(x, vname(fn.Params[0])+".mu") {
						bad = "a lookup in " + Term(x.X) + " without " + vname(fn.Params[0]) + ".mu (held=" + li.Held(x).String() + ")"
					}
				default:
					bad = Term(v)
				}
			}
			walk(ret.Results[0])
			c.Ob(rule, fmt.Sprintf("%s.%s.%s/answers-from-the-map", g.short, g.typ, g.name), ret.Pos(), bad == "",
				fmt.Sprintf("%s.%s can return %s: a lookup must answer from the store's map under its mutex — a remembered result (a 'last hit' cache) is not invalidated by remove(), so a socket that left the namespace, or a closed one, is still found and packets keep being routed to it", g.typ, g.name, bad))
		}
	}
}

func c05PerSocketState(c *Ctx, rule string) {
	p := c.P
	for _, k := range []struct{ ctor, typ string }{{"newClientSocket", "clientSocket"}, {"newServerSocket", "serverSocket"}} {
		fn := p.Fn("sio", k.ctor)
		st := p.Struct("sio", k.typ)
		n := 0
		for i := 0; i < st.NumFields(); i++ {
			f := st.Field(i)
			switch t := f.Type().Underlying().(type) {
			case *types.Map:
				// every store of the field in the constructor is a fresh map
				for _, in := range findInstrs(fn, fieldStorePred(f)) {
					n++
					v := in.(*ssa.Store).Val
					_, fresh := v.(*ssa.MakeMap)
					c.Ob(rule, fmt.Sprintf("sio.%s.%s/fresh-per-socket", k.typ, fdisp(f)), in.Pos(), fresh, fmt.Sprintf("%s.%s is initialised with %s: the table must be made for this socket — one shared by the sockets of a connection mixes the namespaces (ack ids are counted per socket, so id 0 of /a finds the callback of /b)", k.typ, fdisp(f), trunc(Term(v), 60)))
				}
			case *types.Pointer:
				// a mutex by pointer is somebody else's mutex
				if strings.HasSuffix(t.Elem().String(), "sync.Mutex") || strings.HasSuffix(t.Elem().String(), "sync.RWMutex") {
					n++
					c.Ob(rule, fmt.Sprintf("sio.%s.%s/own-mutex", k.typ, fdisp(f)), f.Pos(), false, fmt.Sprintf("%s.%s is a pointer to a mutex: per-socket state guarded by a mutex the socket does not own is state shared across namespaces", k.typ, fdisp(f)))
				}
			}
		}
		if n == 0 {
			c.Undecided("%s: no map-typed field initialised in %s", rule, k.ctor)
		}
	}
}
