package main

// Call-graph queries (A2) over the VTA-refined whole-program graph.

import (
	"strings"

	"golang.org/x/tools/go/callgraph"
	"golang.org/x/tools/go/ssa"
)

type EdgeKind int

const (
	EdgeCall EdgeKind = iota
	EdgeGo
	EdgeDefer
)

func edgeKind(e *callgraph.Edge) EdgeKind {
	switch e.Site.(type) {
	case *ssa.Go:
		return EdgeGo
	case *ssa.Defer:
		return EdgeDefer
	}
	return EdgeCall
}

// inModule: functions of the module (incl. instantiations and closures), not
// examples, not third-party.
func (p *Program) inModule(fn *ssa.Function) bool {
	f := fn
	for f.Parent() != nil {
		f = f.Parent()
	}
	f = originOf(f)
	var path string
	if f.Pkg != nil {
		path = f.Pkg.Pkg.Path()
	} else if obj := f.Object(); obj != nil && obj.Pkg() != nil {
		path = obj.Pkg().Path()
	} else {
		return false
	}
	return strings.HasPrefix(path, modPath) && !strings.Contains(path, "/examples")
}

// Reach computes the functions reachable from `from` following only edges
// accepted by follow; only module functions are expanded (third-party callees
// are leaves, except that callbacks they invoke are already edges of the VTA
// graph from the third-party node, which we do expand when expandForeign).
func (p *Program) Reach(from *ssa.Function, follow func(*callgraph.Edge) bool, expandForeign bool) map[*ssa.Function]*callgraph.Edge {
	cg := p.CallGraph()
	pred := map[*ssa.Function]*callgraph.Edge{from: nil}
	work := []*ssa.Function{from}
	for len(work) > 0 {
		f := work[0]
		work = work[1:]
		n := cg.Nodes[f]
		if n == nil {
			continue
		}
		if !expandForeign && f != from && !p.inModule(f) {
			continue
		}
		for _, e := range n.Out {
			if e.Site == nil || !follow(e) {
				continue
			}
			callee := e.Callee.Func
			if _, seen := pred[callee]; seen {
				continue
			}
			pred[callee] = e
			work = append(work, callee)
		}
	}
	return pred
}

func pathTo(pred map[*ssa.Function]*callgraph.Edge, fn *ssa.Function) []string {
	var rev []string
	for fn != nil {
		rev = append(rev, FuncName(originOf(fn)))
		e := pred[fn]
		if e == nil {
			break
		}
		fn = e.Caller.Func
	}
	for i, j := 0, len(rev)-1; i < j; i, j = i+1, j-1 {
		rev[i], rev[j] = rev[j], rev[i]
	}
	return rev
}

// inLoop reports whether block b lies on a CFG cycle.
func inLoop(b *ssa.BasicBlock) bool {
	if s := siteOf(b.Parent()); s != nil && inLoop(s.Block()) {
		return true
	}
	seen := map[*ssa.BasicBlock]bool{}
	work := append([]*ssa.BasicBlock{}, b.Succs...)
	for len(work) > 0 {
		x := work[len(work)-1]
		work = work[:len(work)-1]
		if x == b {
			return true
		}
		if seen[x] {
			continue
		}
		seen[x] = true
		work = append(work, x.Succs...)
	}
	return false
}

type cfgEdge struct{ from, to *ssa.BasicBlock }

// loopExits: the CFG edges leaving the innermost cycle (strongly connected
// region) that contains b.
func loopExits(b *ssa.BasicBlock) []cfgEdge {
	reach := func(from *ssa.BasicBlock) map[*ssa.BasicBlock]bool {
		seen := map[*ssa.BasicBlock]bool{}
		work := append([]*ssa.BasicBlock{}, from.Succs...)
		for len(work) > 0 {
			x := work[len(work)-1]
			work = work[:len(work)-1]
			if seen[x] {
				continue
			}
			seen[x] = true
			work = append(work, x.Succs...)
		}
		return seen
	}
	fwd := reach(b)
	if !fwd[b] {
		return nil
	}
	loop := map[*ssa.BasicBlock]bool{}
	for x := range fwd {
		if reach(x)[b] {
			loop[x] = true
		}
	}
	// innermost: restrict to blocks dominated by the header of the smallest cycle through b —
	// approximated by the SCC itself (nested loops share blocks; callers pick the instruction's own loop)
	var out []cfgEdge
	for x := range loop {
		for _, s := range x.Succs {
			if !loop[s] {
				out = append(out, cfgEdge{x, s})
			}
		}
	}
	return out
}
